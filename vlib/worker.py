"""Child process of the harness: executes jobs against the repository working
tree given on the command line and streams what it observes as JSON lines.

    python worker.py <repo>

stdin : one JSON job per line      {"kind": ..., ...}
stdout: {"ev": {...}} per observed event, then {"done": true} per job

The worker contains no oracle.  It only calls the code under test and projects
what comes back (module obs).  The parent kills it when a job exceeds its
budget (a hang is an observation too)."""
import sys
import os
import json
import io
import traceback
import hashlib

REPO = os.path.abspath(sys.argv[1])
sys.path.insert(0, REPO)
sys.path.insert(0, os.path.dirname(os.path.dirname(os.path.abspath(__file__))))
os.environ["CONDREWARDS_VERIF"] = "1"
sys.dont_write_bytecode = True

from vlib import obs, games  # noqa: E402

_real_stdout = sys.stdout
sys.stdout = io.StringIO()      # the code under test may print; keep the pipe clean


def emit(ev):
    obs.check_ints(ev)
    _real_stdout.write(json.dumps({"ev": ev}) + "\n")
    _real_stdout.flush()


def digest(text):
    """Equality-only observations (C10, C12) are carried as a digest of the repr."""
    return hashlib.sha256(text.encode()).hexdigest()[:32]


def classify(exc):
    msg = str(exc)
    low = msg.lower()
    if "no solution" in low:
        cls = "nosolution"
    else:
        cls = "other"
    return {"e": "Raise", "etype": type(exc).__name__, "cls": cls, "msg": msg[:300]}


# --------------------------------------------------------------------------
# solver sessions
def job_solver(job):
    import logging
    import tad
    pydescs = [games.to_python(g) for g in job["descs"]]
    if job.get("numtypes"):
        # the same numbers in other legal Python types: rewards as floats, probability one as the int 1
        for d in pydescs:
            d["rewards"][:] = [float(r) for r in d["rewards"]]
            for row, pl in zip(d["transition_list"], d["players"]):
                if pl == "Probabilistic":
                    row[:] = [(1 if p == 1.0 else p, t) for p, t in row]
    rmul = 2 ** int(job["rmulpow"]) if job.get("rmulpow") else 1
    if rmul != 1:
        # rewards of twenty-odd digits: every reward times 2**k (exact in floating point, and so is
        # every operation of the solver on them); what comes back is divided by 2**k again
        for d in pydescs:
            d["rewards"][:] = [r * rmul for r in d["rewards"]]
    # a log level of DEBUG switches on code that normally never runs (the worker is long-lived:
    # the level is set for every job)
    root = logging.getLogger()
    if not root.handlers:
        root.addHandler(logging.NullHandler())
    root.setLevel(logging.DEBUG if job.get("debuglog") else logging.WARNING)
    objs = {}

    def sink(event, fields):
        if event == "ReachDone":
            sl = fields["state_list"]
            emit({"e": "ReachDone",
                  "prob": obs.nums([s.reach_probability for s in sl]),
                  "rstrat": obs.strats(fields["reachability_strategies"])})
        elif event == "Conditioned":
            emit({"e": "Conditioned", "nodes": obs.nodes(fields["state_list"])})
        elif event == "RewardSweep" and sweeps["on"]:
            sl = fields["state_list"]
            ev = {"e": "RewardSweep", "sweep": int(fields["sweep"]),
                  "r": obs.nums([s.expected_rewards for s in sl]),
                  "q": obs.nums([s.expected_rewards_min_reach for s in sl]),
                  "p": obs.nums([s.expected_reach_min_rewards for s in sl]),
                  "lens": [len(s.next_states) for s in sl]}
            # long iterations: the first 40 sweeps and the last 8 (a contiguous tail)
            if ev["sweep"] <= 40:
                emit(ev)
            else:
                sweeps["tail"].append(ev)
                del sweeps["tail"][:-8]

    sweeps = {"on": False, "tail": []}
    hooked = hasattr(tad, "VERIF_SINK")
    if hooked:
        tad.VERIF_SINK = sink
    prev_raised = False
    pruned_raised = set()
    for op in job["script"]:
        d = op["d"] - 1
        # "py" names the Python description object to use (default: the one built for d);
        # after an edit an object built for one description holds the content of another
        desc = pydescs[op.get("py", op["d"]) - 1]
        if op["op"] == "edit":
            # the caller edits its own description IN PLACE: same outer list objects, new content
            new = games.to_python(job["descs"][d])
            for key in ("rewards", "players", "transition_list", "final_states"):
                desc[key][:] = new[key]
            continue
        if op["op"] == "batch":
            # the batch runner on a dictionary that holds this description (the caller's own object):
            # observed only through the snapshots around it
            import conditionalrewards as _cr
            saved = getattr(tad, "VERIF_SINK", None)
            tad.VERIF_SINK = None               # (the inner observation points belong to solve() calls)
            try:
                _cr.run_games({"g": desc})
            except Exception:
                pass
            finally:
                tad.VERIF_SINK = saved
            desc.pop("prune_states", None)      # run_games leaves its flag in the dictionary it was given
            continue
        if op["op"] == "snap":
            emit({"e": "Snap", "d": op["d"], "snap": digest(games.snapshot(desc))})
            continue
        if op.get("unless_prev_raised") and prev_raised:
            continue                    # the batch runner's flow: no unpruned run after a failed pruned one
        if op.get("unless_pruned_raised") and op["d"] in pruned_raised:
            continue
        prune = bool(op["prune"])
        mode = op.get("mode", "solve")
        if op.get("labels"):
            # the same labels as other string OBJECTS (in place: the description is the same
            # description): "const" = the very constants tad exports, "fresh" = equal strings
            # that came out of a parser
            consts = {c: c for c in (tad.PLAYER_1, tad.PLAYER_2, tad.PROBABILISTIC)}
            if op["labels"] == "const":
                desc["players"][:] = [consts.get(p, p) for p in desc["players"]]
            else:
                desc["players"][:] = [json.loads(json.dumps(p)) for p in desc["players"]]
        if op.get("xproc") is not None:
            # "again" as the next run of the tool: a fresh interpreter with another string-hash seed
            run_in_other_process(job, op)
            continue
        emit({"e": "Call", "d": op["d"], "prune": prune, "mode": mode, "obj": op.get("obj", "new")})
        try:
            if mode in ("reach", "cond"):
                # public API only: the way the repository's own tests drive it
                sg = tad.StochasticGame(prune_states=prune, **desc)
                sg.check_game()
                state_list = sg.init_states()
                solver = tad.Solver(threshold=10 ** (-int(op.get("digits", 6))), state_list=state_list)
                rs, _n = solver.solve_reachability(sg.transition_list, sg.final_states, prune)
                emit({"e": "ReachDone",
                      "prob": obs.nums([s.reach_probability for s in state_list]),
                      "rstrat": obs.strats(rs)})
                if mode == "cond":
                    # conditioning through the public Solver API, no reward phase
                    solver.prune_reachability(rs)
                    if prune:
                        solver.prune_stochastich_game()
                    emit({"e": "Conditioned", "nodes": obs.nodes(state_list)})
                emit({"e": "End"})
                continue
            key = op.get("obj", "new")
            if key != "new" and key in objs:
                sg = objs[key]
                sg.prune_states = prune
            else:
                sg = tad.StochasticGame(prune_states=prune, **desc)
                if key != "new":
                    objs[key] = sg
            if not hooked:
                raise RuntimeError("tad.py has no verification hooks (VERIF_SINK)")
            sweeps["on"] = bool(op.get("sweeps"))
            sweeps["tail"] = []
            try:
                result = sg.solve()
            finally:
                for ev in sweeps["tail"]:
                    emit(ev)
                sweeps["on"] = False
        except Exception as exc:  # observed, not judged
            emit(classify(exc))
            prev_raised = True
            if prune:
                pruned_raised.add(op["d"])
            continue
        prev_raised = False
        try:
            fs, rs, rew, prob, nit, nit2, aux1, aux2 = result
            if rmul != 1:
                rew = [x / rmul for x in rew]
                aux2 = [x / rmul for x in aux2]
            emit({"e": "Return",
                  "fstrat": obs.strats(fs), "rstrat": obs.strats(rs),
                  "rew": obs.nums(rew), "prob": obs.nums(prob),
                  "aux1": obs.nums(aux1), "aux2": obs.nums(aux2),
                  "rep": digest(repr(result))})
        except Exception as exc:
            emit({"e": "Raise", "etype": "BadResult", "cls": "other", "msg": repr(exc)[:300]})


def run_in_other_process(job, op):
    """One call of a session executed by a child worker (own interpreter, own PYTHONHASHSEED);
    its events are relayed unchanged.  Only for scripts without edits."""
    import subprocess
    import time
    child_op = {k: v for k, v in op.items() if k != "xproc"}
    child_op["obj"] = "new"
    child_job = {"kind": "solver", "descs": job["descs"], "script": [child_op]}
    env = dict(os.environ, PYTHONHASHSEED=str(op["xproc"]), CONDREWARDS_VERIF="1", PYTHONDONTWRITEBYTECODE="1")
    proc = subprocess.Popen([sys.executable, os.path.abspath(__file__), REPO], stdin=subprocess.PIPE,
                            stdout=subprocess.PIPE, stderr=subprocess.DEVNULL, env=env, cwd="/")
    try:
        out, _ = proc.communicate((json.dumps(child_job) + "\n").encode(),
                                  timeout=max(2.0, float(job.get("budget", 10.0)) - 1.0))
    except subprocess.TimeoutExpired:
        proc.kill()
        proc.wait()
        emit({"e": "Call", "d": op["d"], "prune": bool(op["prune"]), "mode": op.get("mode", "solve"), "obj": "new"})
        time.sleep(10 ** 6)        # a hang is an observation: the parent ends this worker
    done = False
    for line in out.decode().splitlines():
        msg = json.loads(line)
        if "ev" in msg:
            emit(msg["ev"])
        elif "error" in msg:
            raise RuntimeError("child worker failed: " + msg["error"])
        elif msg.get("done"):
            done = True
    if not done:
        raise RuntimeError("child worker ended early")


HANDLERS = {"solver": job_solver}


def main():
    # further job kinds are registered by the modules that need them
    try:
        from vlib import jobs_extra
        HANDLERS.update(jobs_extra.handlers(emit, REPO))
    except ImportError:
        pass
    for line in sys.stdin:
        line = line.strip()
        if not line:
            continue
        job = json.loads(line)
        try:
            HANDLERS[job["kind"]](job)
        except Exception:
            _real_stdout.write(json.dumps({"error": traceback.format_exc()}) + "\n")
        sys.stdout.seek(0)
        sys.stdout.truncate()
        _real_stdout.write(json.dumps({"done": True}) + "\n")
        _real_stdout.flush()


if __name__ == "__main__":
    main()
