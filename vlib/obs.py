"""Projection of Python values into the integer-only JSON the TLA+ trace
specifications read (DESIGN 4.2, "encoder gate").

TLC's JsonDeserialize rejects null, truncates floats and wraps integers >= 2**31,
so nothing here ever emits a float, a null or a large integer.  No semantic
judgement is made in this module: it only re-expresses values.
"""
from fractions import Fraction
import math

NANO = 10 ** 9
INT_MAX = 2 ** 31 - 1


def num(x):
    """An observed number: value = i + f*1e-9 (floor of the exact binary value),
    k = ok | neg | nan | inf | big | nonnum ; z/o: the value is exactly 0 / 1."""
    if isinstance(x, bool) or not isinstance(x, (int, float)):
        return {"i": 0, "f": 0, "k": "nonnum", "z": False, "o": False}
    if isinstance(x, float):
        if math.isnan(x):
            return {"i": 0, "f": 0, "k": "nan", "z": False, "o": False}
        if math.isinf(x):
            return {"i": 0, "f": 0, "k": "inf", "z": False, "o": False}
    if x < 0:
        return {"i": 0, "f": 0, "k": "neg", "z": False, "o": False}
    fr = Fraction(x)
    i = fr.numerator // fr.denominator
    if i > 10 ** 9:
        return {"i": 0, "f": 0, "k": "big", "z": False, "o": False}
    rem = fr - i
    f = (rem.numerator * NANO) // rem.denominator
    return {"i": int(i), "f": int(f), "k": "ok", "z": x == 0, "o": x == 1}


def nums(xs):
    if not isinstance(xs, (list, tuple)):
        return []
    return [num(x) for x in xs]


def strat(st):
    """A strategy entry: None or a list of action names."""
    if st is None:
        return {"none": True, "acts": []}
    if isinstance(st, (list, tuple)):
        return {"none": False, "acts": [a if isinstance(a, str) else "<" + repr(a) + ">" for a in st]}
    return {"none": False, "acts": ["<" + repr(st) + ">"]}


def strats(sts):
    if not isinstance(sts, (list, tuple)):
        return []
    return [strat(s) for s in sts]


def nodes(state_list):
    """Working transition lists of the solver's node objects (1-based targets)."""
    out = []
    for st in state_list:
        row = []
        is_prob = st.player == "Probabilistic"
        for tr in st.next_states:
            first, nxt = tr[0], tr[1]
            row.append({
                "a": "" if is_prob else (first if isinstance(first, str) else "<" + repr(first) + ">"),
                "t": int(nxt) + 1 if isinstance(nxt, int) and not isinstance(nxt, bool) else 0,
                "p": num(first) if is_prob else num(0),
            })
        out.append(row)
    return out


def check_ints(o, path="$"):
    """Encoder gate: every number is an int within 32 bits, there is no null."""
    if o is None:
        raise ValueError("null at " + path)
    if isinstance(o, bool) or isinstance(o, str):
        return
    if isinstance(o, float):
        raise ValueError("float at " + path)
    if isinstance(o, int):
        if not -INT_MAX <= o <= INT_MAX:
            raise ValueError("int out of range at " + path)
        return
    if isinstance(o, list):
        for i, x in enumerate(o):
            check_ints(x, "%s[%d]" % (path, i))
        return
    if isinstance(o, dict):
        for k, v in o.items():
            if not isinstance(k, str):
                raise ValueError("non-string key at " + path)
            check_ints(v, path + "." + k)
        return
    raise ValueError("unsupported %r at %s" % (type(o), path))
