"""Solves ONE game alone in a fresh interpreter (C12: 'what solving that game
alone gives' must not share any module state with the batch run).

    python solo_runner.py <repo>   < {"desc_repr": "..."}   > {"pr": ..., "un": ...}
"""
import sys
import os
import json
import copy
import hashlib
import io
import logging

repo = os.path.abspath(sys.argv[1])
sys.path.insert(0, repo)
sys.dont_write_bytecode = True
real = sys.stdout
sys.stdout = io.StringIO()
logging.disable(logging.CRITICAL)
import tad  # noqa: E402

FIELDS = ("n_states", "n_transitions", "n_iterations_reach", "n_iterations_rew",
          "reachability_strategies", "final_strategies", "rewards", "rew_min_reach",
          "probabilities", "prob_min_rew")


def dg(v):
    return hashlib.sha256(repr(v).encode()).hexdigest()[:24]


def solo(desc, prune):
    d = copy.deepcopy(desc)
    d.pop("prune_states", None)        # "this game alone in this mode": the mode is what we ask for
    try:
        sg = tad.StochasticGame(prune_states=prune, **d)
        entry = {"n_states": sg.num_states, "n_transitions": sg.count_transitions()}
        fs, rs, rew, prob, it1, it2, a1, a2 = sg.solve()
    except ValueError as exc:
        return {"ok": False, "err": str(exc)[:400], "fields": []}
    except Exception as exc:          # observed, not judged: the batch entry can never equal this
        return {"ok": False, "err": "<%s> %s" % (type(exc).__name__, str(exc)[:300]), "fields": []}
    entry.update({"n_iterations_reach": it1, "n_iterations_rew": it2, "reachability_strategies": rs,
                  "final_strategies": fs, "rewards": rew, "rew_min_reach": a2, "probabilities": prob,
                  "prob_min_rew": a1})
    return {"ok": True, "err": "", "fields": [dg(entry[f]) for f in FIELDS]}


def alone(desc):
    """The batch runner on a file that holds this game only: the reference for entries of games
    that fail (their counters and vectors must not depend on the games before them)."""
    try:
        import conditionalrewards as cr
        res = cr.run_games({"g": copy.deepcopy(desc)})
        return {"ok": True,
                "pr": [dg(res["g"].get(f)) for f in FIELDS] if "g" in res else [],
                "un": [dg(res["g_no_prune"].get(f)) for f in FIELDS] if "g_no_prune" in res else []}
    except Exception as exc:
        return {"ok": False, "pr": [], "un": [], "err": type(exc).__name__}


job = json.loads(sys.stdin.read())
desc = eval(job["desc_repr"])
out = {"pr": solo(desc, True), "un": solo(desc, False), "alone": alone(desc)}
real.write(json.dumps(out))
