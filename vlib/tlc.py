"""Running TLC and reading what it says."""
import json
import os
import re
import shutil
import subprocess
import tempfile
import time

SPEC_DIR = os.path.join(os.path.dirname(os.path.dirname(os.path.abspath(__file__))), "spec")
CP = "/opt/veriftools/tla/tla2tools.jar:/opt/veriftools/tla/CommunityModules-deps.jar"


class TLCResult:
    def __init__(self):
        self.rc = None
        self.out = ""
        self.printed = []      # JSON values printed with PrintT(ToJson(..))
        self.generated = 0
        self.distinct = 0
        self.errors = []       # TLC error / violation blocks
        self.wall = 0.0
        self.timed_out = False
        self.coverage = {}

    @property
    def ok(self):
        return self.rc == 0 and not self.errors and not self.timed_out


def parse_output(res):
    for line in res.out.splitlines():
        s = line.strip()
        if s.startswith('"') and s.endswith('"') and len(s) > 1:
            try:
                inner = json.loads(s)
                res.printed.append(json.loads(inner))
                continue
            except Exception:
                pass
        m = re.match(r"(\d+) states generated, (\d+) distinct states found", s)
        if m:
            res.generated = int(m.group(1))
            res.distinct = int(m.group(2))
        if s.startswith("Error:") or "is violated" in s or s.startswith("Invariant ") and "violated" in s:
            res.errors.append(s)
        m = re.match(r"<(\w+) line \d+, col \d+ to line \d+, col \d+ of module (\w+)>: (\d+):(\d+)", s)
        if m:
            res.coverage[m.group(2) + "." + m.group(1)] = int(m.group(4))


def run(module, cfg=None, env=None, workers=1, timeout=3600, args=(), heap="3g", gc="serial",
        stack=None, cwd=None):
    """Run TLC on spec/<module>.tla with spec/<cfg or module>.cfg."""
    res = TLCResult()
    meta = tempfile.mkdtemp(prefix="tlcmeta_")
    e = dict(os.environ)
    e.pop("JAVA_TOOL_OPTIONS", None)
    if env:
        e.update({k: str(v) for k, v in env.items()})
    gcopt = ["-XX:+UseSerialGC"] if gc == "serial" else ["-XX:+UseParallelGC", "-XX:ParallelGCThreads=4"]
    cmd = ["java", "-Xmx" + heap] + gcopt + os.environ.get("VERIF_JAVA_OPTS", "").split()
    if stack:
        cmd.append("-Xss" + stack)
    cmd += ["-cp", CP, "tlc2.TLC", "-workers", str(workers), "-metadir", meta,
            "-noGenerateSpecTE", "-config", (cfg or module) + ".cfg"]
    cmd += list(args) + [module + ".tla"]
    t0 = time.time()
    try:
        p = subprocess.run(cmd, cwd=cwd or SPEC_DIR, env=e, stdout=subprocess.PIPE,
                           stderr=subprocess.STDOUT, timeout=timeout)
        res.rc = p.returncode
        res.out = p.stdout.decode(errors="replace")
    except subprocess.TimeoutExpired as ex:
        res.timed_out = True
        res.rc = -1
        res.out = (ex.stdout or b"").decode(errors="replace")
    finally:
        shutil.rmtree(meta, ignore_errors=True)
    res.wall = time.time() - t0
    parse_output(res)
    return res


def run_parallel(jobs, nproc=16):
    """jobs: list of kwargs for run(); executes up to nproc TLC processes at once."""
    import concurrent.futures
    with concurrent.futures.ThreadPoolExecutor(max_workers=nproc) as ex:
        futs = [ex.submit(run, **j) for j in jobs]
        return [f.result() for f in futs]
