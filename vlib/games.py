"""Conversion between the specification's game encoding (module Games: 1-based
states, owner P1/P2/PR, transitions {a, w, t} with integer weights) and the
keyword arguments of tad.StochasticGame (0-based, floats)."""

import math

OWNER = {"P1": "Player 1", "P2": "Player 2", "PR": "Probabilistic"}
OWNER_INV = {v: k for k, v in OWNER.items()}


def to_python(g):
    """Spec game -> dict(rewards, players, transition_list, final_states).
    Probability of a transition = w / (total weight of its state)."""
    tl = []
    for s in range(g["n"]):
        row = g["tr"][s]
        if g["owner"][s] == "PR":
            tot = sum(e["w"] for e in row)
            tl.append([(e["w"] / tot if tot else 0.0, e["t"] - 1) for e in row])
        else:
            tl.append([(e["a"], e["t"] - 1) for e in row])
    return {
        "rewards": (list(g["reward"]) if g.get("rscale", 1) == 1
                    else [r / g["rscale"] for r in g["reward"]]),
        "players": [OWNER[o] for o in g["owner"]],
        "transition_list": tl,
        "final_states": [f - 1 for f in g["final"]],
    }


def from_python(desc, den=None):
    """dict -> spec game.  Probabilities are turned into integer weights over a
    common denominator `den` (default: 10**6); returns (game, exact) where exact
    says every probability was within 1e-12 of weight/den."""
    den = den or 10 ** 6
    n = len(desc["players"])
    exact = True
    tr = []
    for s in range(n):
        row = []
        for first, nxt in desc["transition_list"][s]:
            if desc["players"][s] == "Probabilistic":
                w = round(first * den)
                if abs(w / den - first) > 1e-12:
                    exact = False
                row.append({"a": "", "w": int(w), "t": nxt + 1})
            else:
                row.append({"a": first, "w": 0, "t": nxt + 1})
        tr.append(row)
    # rewards: integers, or rationals over a common denominator <= 1000 (field rscale)
    from fractions import Fraction
    rs = [Fraction(r).limit_denominator(1000) for r in desc["rewards"]]
    scale = 1
    for r in rs:
        scale = scale * r.denominator // math.gcd(scale, r.denominator)
    if scale > 1000 or any(abs(float(r) - x) > 1e-12 for r, x in zip(rs, desc["rewards"])):
        raise ValueError("rewards are not small rationals")
    g = {"n": n, "owner": [OWNER_INV[p] for p in desc["players"]],
         "reward": [int(r * scale) for r in rs], "tr": tr,
         "final": [f + 1 for f in desc["final_states"]]}
    if scale > 1:
        g["rscale"] = scale
    return g, exact


def snapshot(desc):
    """Canonical text of a caller-side description (exact: repr of floats)."""
    return repr((desc.get("rewards"), desc.get("players"),
                 desc.get("transition_list"), desc.get("final_states")))
