"""Parent side of the harness: a pool of killable worker processes."""
import json
import os
import select
import subprocess
import sys
import threading
import time
import queue

HERE = os.path.dirname(os.path.abspath(__file__))
PY = "/venv/bin/python"


class Worker:
    def __init__(self, repo):
        self.repo = repo
        self.proc = None
        self.buf = b""

    def start(self):
        env = dict(os.environ)
        env["CONDREWARDS_VERIF"] = "1"
        env["PYTHONDONTWRITEBYTECODE"] = "1"
        env["PYTHONHASHSEED"] = "0"
        env["PYTHONUTF8"] = "1"         # text files are UTF-8 whatever the sandbox locale says
        self.proc = subprocess.Popen(
            [PY, os.path.join(HERE, "worker.py"), self.repo],
            stdin=subprocess.PIPE, stdout=subprocess.PIPE, stderr=subprocess.DEVNULL,
            env=env, cwd="/")
        self.buf = b""

    def stop(self):
        if self.proc is not None:
            try:
                self.proc.kill()
                self.proc.wait()
            except Exception:
                pass
            self.proc = None

    def _readline(self, deadline):
        fd = self.proc.stdout.fileno()
        while b"\n" not in self.buf:
            left = deadline - time.time()
            if left <= 0:
                return None
            r, _, _ = select.select([fd], [], [], min(left, 1.0))
            if r:
                chunk = os.read(fd, 1 << 16)
                if not chunk:
                    return b""          # worker died
                self.buf += chunk
        line, self.buf = self.buf.split(b"\n", 1)
        return line

    def run(self, job, budget):
        """Returns (events, status) with status ok | timeout | crash | error:<text>"""
        if self.proc is None or self.proc.poll() is not None:
            self.start()
        self.proc.stdin.write((json.dumps(job) + "\n").encode())
        self.proc.stdin.flush()
        events = []
        deadline = time.time() + budget
        err = None
        while True:
            line = self._readline(deadline)
            if line is None:
                self.stop()
                return events, "timeout"
            if line == b"":
                self.stop()
                return events, "crash"
            msg = json.loads(line)
            if "ev" in msg:
                events.append(msg["ev"])
                # the budget is per call, not per session
                if msg["ev"].get("e") in ("Return", "Raise", "End", "Call", "Snap"):
                    deadline = time.time() + budget
            elif "error" in msg:
                err = msg["error"]
            elif msg.get("done"):
                return events, ("ok" if err is None else "error:" + err)


def run_jobs(jobs, repo, budget=20.0, nproc=None):
    """Run jobs (list of dicts) on a pool; returns list of (events, status) in order."""
    nproc = nproc or min(16, max(1, len(jobs)))
    results = [None] * len(jobs)
    q = queue.Queue()
    for i, j in enumerate(jobs):
        q.put((i, j))

    def loop():
        w = Worker(repo)
        try:
            while True:
                try:
                    i, j = q.get_nowait()
                except queue.Empty:
                    return
                results[i] = w.run(j, j.get("budget", budget))
        finally:
            w.stop()

    threads = [threading.Thread(target=loop) for _ in range(nproc)]
    for t in threads:
        t.start()
    for t in threads:
        t.join()
    return results
