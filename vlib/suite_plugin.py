"""pytest plugin (python -m pytest -p vlib.suite_plugin): records what the repository's OWN
test suite does with the solver and the backward search, in the event vocabulary of the
trace specifications.  Nothing in the repository is edited: the public entry points are
wrapped from outside, before the test modules are imported, and the env-guarded hooks of
tad.py (VERIF_SINK) supply the two inner observation points of a full solve.

  VERIF_SUITE_OUT : file that receives one JSON record per observed top-level call
"""
import hashlib
import json
import os

os.environ["CONDREWARDS_VERIF"] = "1"

import reverse_dfs as _rd   # noqa: E402
import tad as _tad          # noqa: E402

from vlib import obs, games  # noqa: E402

_OUT = os.environ["VERIF_SUITE_OUT"]
_depth = {"solve": 0}
_cur = {"test": ""}


def _digest(text):
    return hashlib.sha256(text.encode()).hexdigest()[:32]


def _write(rec):
    rec["test"] = _cur["test"]
    with open(_OUT, "a") as f:
        f.write(json.dumps(rec) + "\n")


def _classify(exc):
    msg = str(exc)
    return {"e": "Raise", "etype": type(exc).__name__, "cls": "nosolution" if "no solution" in msg.lower() else "other",
            "msg": msg[:300]}


def _encode(desc):
    """Spec encoding with the smallest common denominator that represents every probability."""
    for den in (1, 2, 3, 4, 5, 6, 8, 10, 12, 20, 100, 1000, 10 ** 6):
        g, exact = games.from_python(desc, den)
        if exact:
            return g, den <= 10
    return g, False


_orig_solve = _tad.StochasticGame.solve


def _solve(self):
    if _depth["solve"]:
        return _orig_solve(self)
    desc = {"rewards": self.rewards, "players": self.players, "transition_list": self.transition_list,
            "final_states": self.final_states}
    events = [{"e": "Snap", "d": 1, "snap": _digest(games.snapshot(desc))},
              {"e": "Call", "d": 1, "prune": bool(self.prune_states), "mode": "solve", "obj": "new"}]

    def sink(event, fields):
        if event == "ReachDone":
            events.append({"e": "ReachDone", "prob": obs.nums([s.reach_probability for s in fields["state_list"]]),
                           "rstrat": obs.strats(fields["reachability_strategies"])})
        elif event == "Conditioned":
            events.append({"e": "Conditioned", "nodes": obs.nodes(fields["state_list"])})
    try:
        g, exact = _encode(desc)
    except Exception:
        g, exact = None, False
    old = getattr(_tad, "VERIF_SINK", None)
    _tad.VERIF_SINK = sink
    _depth["solve"] += 1
    try:
        result = _orig_solve(self)
    except Exception as exc:
        events.append(_classify(exc))
        events.append({"e": "Snap", "d": 1, "snap": _digest(games.snapshot(desc))})
        if g is not None:
            _write({"kind": "solve", "g": g, "weights_exact": exact, "events": events})
        raise
    finally:
        _depth["solve"] -= 1
        _tad.VERIF_SINK = old
    try:
        fs, rs, rew, prob, nit, nit2, aux1, aux2 = result
        events.append({"e": "Return", "fstrat": obs.strats(fs), "rstrat": obs.strats(rs), "rew": obs.nums(rew),
                       "prob": obs.nums(prob), "aux1": obs.nums(aux1), "aux2": obs.nums(aux2),
                       "rep": _digest(repr(result))})
    except Exception as exc:
        events.append({"e": "Raise", "etype": "BadResult", "cls": "other", "msg": repr(exc)[:300]})
    events.append({"e": "Snap", "d": 1, "snap": _digest(games.snapshot(desc))})
    if g is not None:
        _write({"kind": "solve", "g": g, "weights_exact": exact, "events": events})
    return result


_tad.StochasticGame.solve = _solve

_orig_sr = _tad.Solver.solve_reachability


def _solve_reachability(self, transition_list, final_states, prune_states, *a, **kw):
    """The reachability phase called directly on node objects (the way most tests drive it)."""
    if _depth["solve"]:
        return _orig_sr(self, transition_list, final_states, prune_states, *a, **kw)
    try:
        desc = {"rewards": [s.reward for s in self.state_list], "players": [s.player for s in self.state_list],
                "transition_list": [list(r) for r in transition_list], "final_states": list(final_states)}
        g, exact = _encode(desc)
    except Exception:
        g, exact = None, False
    events = [{"e": "Call", "d": 1, "prune": bool(prune_states), "mode": "reach", "obj": "new"}]
    _depth["solve"] += 1
    try:
        ret = _orig_sr(self, transition_list, final_states, prune_states, *a, **kw)
    except Exception as exc:
        events.append(_classify(exc))
        if g is not None:
            _write({"kind": "solve", "g": g, "weights_exact": exact, "events": events})
        raise
    finally:
        _depth["solve"] -= 1
    try:
        rs, _n = ret
        events.append({"e": "ReachDone", "prob": obs.nums([s.reach_probability for s in self.state_list]),
                       "rstrat": obs.strats(rs)})
        events.append({"e": "End"})
    except Exception as exc:
        events.append({"e": "Raise", "etype": "BadResult", "cls": "other", "msg": repr(exc)[:300]})
    if g is not None:
        _write({"kind": "solve", "g": g, "weights_exact": exact, "events": events})
    return ret


_tad.Solver.solve_reachability = _solve_reachability

_orig_rdfs = _rd.reverse_dfs


def _reverse_dfs(transition_list, final_states, *a, **kw):
    ok_in = isinstance(transition_list, list) and all(
        isinstance(r, list) and all(isinstance(e, tuple) and len(e) == 2 and isinstance(e[1], int) for e in r)
        for r in transition_list) and all(isinstance(f, int) for f in final_states)
    tl = [[e[1] + 1 for e in r] for r in transition_list] if ok_in else None
    fin = [f + 1 for f in final_states] if ok_in else None
    table = {"ok": False, "etype": "skipped", "keys": [], "vals": []}
    if ok_in:
        try:
            t = _rd.reverse_transition_list(transition_list)
            keys = list(t.keys())
            table = {"ok": True, "etype": "", "keys": [k + 1 if isinstance(k, int) else 0 for k in keys],
                     "vals": [[u + 1 if isinstance(u, int) else 0 for u in t[k]] for k in keys]}
        except BaseException as exc:
            table = {"ok": False, "etype": type(exc).__name__, "keys": [], "vals": []}
    try:
        ret = _orig_rdfs(transition_list, final_states, *a, **kw)
    except BaseException as exc:
        if ok_in:
            _write({"kind": "revdfs", "tl": tl, "finals": fin, "table": table,
                    "ret": {"ok": False, "etype": type(exc).__name__, "val": []}})
        raise
    if ok_in:
        _write({"kind": "revdfs", "tl": tl, "finals": fin, "table": table,
                "ret": {"ok": isinstance(ret, list), "etype": "" if isinstance(ret, list) else "NotAList",
                        "val": [x + 1 if isinstance(x, int) else 0 for x in ret] if isinstance(ret, list) else []}})
    return ret


_rd.reverse_dfs = _reverse_dfs
_tad.reverse_dfs = _reverse_dfs       # tad did "from reverse_dfs import reverse_dfs"


def pytest_runtest_setup(item):
    _cur["test"] = item.nodeid
