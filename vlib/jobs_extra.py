"""Further job kinds of the harness worker (everything except solver sessions).
Each handler calls the code under test and projects what it observes; no oracle."""
import importlib
import os
import sys

from . import obs


def _fresh(name):
    if name in sys.modules:
        return sys.modules[name]
    return importlib.import_module(name)


def handlers(emit, repo):
    def job_revdfs(job):
        rd = _fresh("reverse_dfs")
        tl = [[("a", t - 1) for t in row] for row in job["tl"]]
        finals = [f - 1 for f in job["finals"]]
        try:
            table = rd.reverse_transition_list(tl)
            if not isinstance(table, dict):
                t_obs = {"ok": False, "etype": "NotADict", "keys": [], "vals": []}
            else:
                keys = list(table.keys())
                t_obs = {"ok": True, "etype": "",
                         "keys": [k + 1 if isinstance(k, int) else 0 for k in keys],
                         "vals": [[u + 1 if isinstance(u, int) else 0 for u in table[k]] for k in keys]}
        except BaseException as exc:
            t_obs = {"ok": False, "etype": type(exc).__name__, "keys": [], "vals": []}
        try:
            ret = rd.reverse_dfs(tl, finals)
            if not isinstance(ret, list):
                r_obs = {"ok": False, "etype": "NotAList", "val": []}
            else:
                r_obs = {"ok": True, "etype": "", "val": [x + 1 if isinstance(x, int) else 0 for x in ret]}
        except BaseException as exc:
            r_obs = {"ok": False, "etype": type(exc).__name__, "val": []}
        emit({"e": "RevDFS", "table": t_obs, "ret": r_obs})

    return {"revdfs": job_revdfs}
