"""Further job kinds of the harness worker (everything except solver sessions).
Each handler calls the code under test and projects what it observes; no oracle."""
import importlib
import os
import sys

from . import obs


def _fresh(name):
    if name in sys.modules:
        return sys.modules[name]
    return importlib.import_module(name)


def handlers(emit, repo):
    def job_revdfs(job):
        # "steps": the caller keeps ONE transition-list object and edits it in place between calls
        steps = job.get("steps") or [{"tl": job["tl"], "finals": job["finals"]}]
        shared = []
        for st in steps:
            shared[:] = [[("a", t - 1) for t in row] for row in st["tl"]]
            revdfs_once(shared, [f - 1 for f in st["finals"]])

    def revdfs_once(tl, finals):
        rd = _fresh("reverse_dfs")
        try:
            table = rd.reverse_transition_list(tl)
            if not isinstance(table, dict):
                t_obs = {"ok": False, "etype": "NotADict", "keys": [], "vals": []}
            else:
                keys = list(table.keys())
                t_obs = {"ok": True, "etype": "",
                         "keys": [k + 1 if isinstance(k, int) else 0 for k in keys],
                         "vals": [[u + 1 if isinstance(u, int) else 0 for u in table[k]] for k in keys]}
        except BaseException as exc:
            t_obs = {"ok": False, "etype": type(exc).__name__, "keys": [], "vals": []}
        try:
            ret = rd.reverse_dfs(tl, finals)
            if not isinstance(ret, list):
                r_obs = {"ok": False, "etype": "NotAList", "val": []}
            else:
                r_obs = {"ok": True, "etype": "", "val": [x + 1 if isinstance(x, int) else 0 for x in ret]}
        except BaseException as exc:
            r_obs = {"ok": False, "etype": type(exc).__name__, "val": []}
        emit({"e": "RevDFS", "table": t_obs, "ret": r_obs})

    def decode(v):
        """Tagged Python value (module Malformed) -> the Python value."""
        ty = v["ty"]
        if ty == "int":
            return v["v"]
        if ty == "float":
            return v["v"] / v["d"]
        if ty == "str":
            return v["s"]
        if ty == "none":
            return None
        if ty == "tuple":
            return tuple(decode(x) for x in v["items"])
        if ty == "list":
            return [decode(x) for x in v["items"]]
        raise ValueError("bad tagged value " + repr(v))

    def msg_class(msg):
        if msg == "Game solved":
            return "solved"
        if msg == "Game not solved":
            return "notsolved"
        if isinstance(msg, str) and msg.startswith("Error while solving the game"):
            return "error"
        return "other"

    def job_malformed(job):
        import copy
        import logging
        tad = _fresh("tad")
        cr = _fresh("conditionalrewards")
        logging.disable(logging.CRITICAL)
        from . import games
        desc = {k: decode(job["tg"][k]) for k in ("rewards", "players", "transition_list", "final_states")}
        base = games.to_python(job["base"])
        for prune in (True, False):
            try:
                d = copy.deepcopy(desc)
                tad.StochasticGame(prune_states=prune, **d).solve()
                emit({"e": "Direct", "how": "fresh", "prune": prune, "k": "Return", "etype": ""})
            except Exception as exc:
                emit({"e": "Direct", "how": "fresh", "prune": prune, "k": "Raise", "etype": type(exc).__name__})
        # the same object asked twice (a refusal must not wear off), in the other mode the second time
        for prune in (True, False):
            try:
                sg = tad.StochasticGame(prune_states=prune, **copy.deepcopy(desc))
            except Exception:
                continue                       # refused by the constructor: nothing to ask twice
            try:
                sg.solve()
            except Exception:
                pass
            try:
                sg.prune_states = not prune
                sg.solve()
                emit({"e": "Direct", "how": "again", "prune": not prune, "k": "Return", "etype": ""})
            except Exception as exc:
                emit({"e": "Direct", "how": "again", "prune": not prune, "k": "Raise", "etype": type(exc).__name__})
        # an object that was solved while its description was fine; the caller then edits the
        # description in place into the malformed one and solves again
        try:
            good = copy.deepcopy(base)
            sg = tad.StochasticGame(prune_states=True, **good)
            sg.solve()
            turned = all(isinstance(desc[k], list) for k in ("rewards", "players", "transition_list", "final_states"))
            if turned:
                bad = copy.deepcopy(desc)
                for k in ("rewards", "players", "transition_list", "final_states"):
                    good[k][:] = bad[k]
                try:
                    sg.solve()
                    emit({"e": "Direct", "how": "turned", "prune": True, "k": "Return", "etype": ""})
                except Exception as exc:
                    emit({"e": "Direct", "how": "turned", "prune": True, "k": "Raise", "etype": type(exc).__name__})
        except Exception:
            pass                                   # the base game is the harness's business, not a verdict
        try:
            gd = {"good_first": copy.deepcopy(base), "bad": copy.deepcopy(desc), "good_last": copy.deepcopy(base)}
            out = cr.run_games(gd)
            keys = list(out.keys())
            emit({"e": "Batch", "crashed": False, "etype": "", "keys": [str(k) for k in keys],
                  "msgs": [msg_class(out[k].get("msg")) for k in keys],
                  "hasres": [out[k].get("final_strategies") is not None for k in keys]})
        except Exception as exc:
            emit({"e": "Batch", "crashed": True, "etype": type(exc).__name__, "keys": [], "msgs": [], "hasres": []})

    FIELDS = ("n_states", "n_transitions", "n_iterations_reach", "n_iterations_rew",
              "reachability_strategies", "final_strategies", "rewards", "rew_min_reach",
              "probabilities", "prob_min_rew")

    def dg(v):
        import hashlib
        return hashlib.sha256(repr(v).encode()).hexdigest()[:24]

    def solo(tad, desc, prune):
        """One game alone on a fresh deep copy; the entry run_games would build for it."""
        import copy
        d = copy.deepcopy(desc)
        try:
            sg = tad.StochasticGame(prune_states=prune, **d)
            entry = {"n_states": sg.num_states, "n_transitions": sg.count_transitions()}
            fs, rs, rew, prob, it1, it2, a1, a2 = sg.solve()
        except ValueError as exc:
            return {"ok": False, "err": str(exc)[:400], "fields": []}
        entry.update({"n_iterations_reach": it1, "n_iterations_rew": it2, "reachability_strategies": rs,
                      "final_strategies": fs, "rewards": rew, "rew_min_reach": a2, "probabilities": prob,
                      "prob_min_rew": a1})
        return {"ok": True, "err": "", "fields": [dg(entry[f]) for f in FIELDS]}

    def write_input(path, names, descs, style):
        with open(path, "w", encoding="utf-8") as f:
            if not names:
                f.write("# no games\n{}\n" if style == 0 else "{\n    # nothing here yet\n}\n")
            elif style == 0:      # the generator's style: str(dict) with line breaks
                f.write("# Board:\n#\n#   [0|<>( )]\n\n{\n")
                for i, (n, d) in enumerate(zip(names, descs)):
                    f.write(" %r: " % n)
                    f.write(str(d).replace("[[", "[\n[").replace("], ", "],\n"))
                    f.write(",\n" if i < len(names) - 1 else "\n}\n")
            elif style == 2:    # arithmetic in the file: probabilities written as fractions, line comments inside lists
                from fractions import Fraction

                def lit(v, depth=0):
                    if isinstance(v, float):
                        fr = Fraction(v).limit_denominator(10 ** 7)
                        if fr.denominator != 1 and fr.numerator / fr.denominator == v:
                            return "%d/%d" % (fr.numerator, fr.denominator)
                        return repr(v)
                    if isinstance(v, list):
                        return "[" + ", ".join(lit(x, depth + 1) for x in v) + ("," if v and depth == 0 else "") + "]"
                    if isinstance(v, tuple):
                        return "(" + ", ".join(lit(x, depth + 1) for x in v) + ("," if len(v) == 1 else "") + ")"
                    return repr(v)
                f.write("# probabilities as fractions, e.g. {1/3, 2/3}\n{\n")
                for n, d in zip(names, descs):
                    f.write("\n  %r : {   # %s\n" % (n, n))
                    for k in [x for x in ("rewards", "players", "transition_list", "final_states", "prune_states") if x in d]:
                        text = lit(d[k])
                        # builtins are part of what a file may denote: list(...), range(...)
                        if k == "rewards" and isinstance(d[k], list):
                            text = "list(%s)" % lit(tuple(d[k]))
                        if k == "final_states" and isinstance(d[k], list) and d[k] and all(isinstance(x, int) and not isinstance(x, bool) for x in d[k]) \
                                and d[k] == list(range(d[k][0], d[k][0] + len(d[k]))):
                            text = "list(range(%d, %d))" % (d[k][0], d[k][0] + len(d[k]))
                        f.write("      %r :\n          %s ,\n" % (k, text))
                    f.write("  } ,\n")
                f.write("\n}\n# end\n")
            else:               # hand-written style: comments, one field per line, trailing commas
                f.write("# hand-made input {player 1 picks from {alfa, beta}}\n{\n")
                for n, d in zip(names, descs):
                    f.write("    # game %s\n    %r: {\n" % (n, n))
                    for k in [x for x in ("rewards", "players", "transition_list", "final_states", "prune_states")
                              if x in d]:
                        f.write("        %r: %r,  # %s\n" % (k, d[k], k))
                    f.write("    },\n")
                f.write("}\n")

    def parse_report(path, unmap=lambda t: t):
        blocks, cur = [], None
        with open(path, encoding="utf-8", errors="replace") as f:
            for line in f.read().split("\n"):
                if line == "=" * 160:
                    cur = []
                    blocks.append(cur)
                elif line and cur is not None:
                    label, _, text = line.partition(": ")
                    cur.append({"label": label.rstrip(), "text": unmap(text)})
        return blocks

    def listing(root):
        out = []
        for d, _, files in os.walk(root):
            for fn in files:
                out.append(os.path.relpath(os.path.join(d, fn), root))
        return sorted(out)

    def job_batch(job):
        import copy
        import logging
        import shutil
        import subprocess
        import tempfile
        tad = _fresh("tad")
        cr = _fresh("conditionalrewards")
        logging.disable(logging.CRITICAL)
        names = job["names"]
        descs = [{k: decode(tg[k]) for k in ("rewards", "players", "transition_list", "final_states")}
                 for tg in job["tgs"]]
        # each game alone, in a fresh interpreter: no module state shared with the batch run
        # a description may carry a prune_states entry of its own (the runner must override it)
        for d, fl in zip(descs, job.get("flags", [])):
            if fl in ("true", "false"):
                d["prune_states"] = (fl == "true")
        # non-ASCII names: legal Python text in a UTF-8 file.  Game names get a suffix that is
        # stripped again from everything observed (what comes back garbled keeps its garbling and
        # no longer matches); action names stay as they are (they only occur in observations)
        UNI = "_\u00f1\u03b1" if job.get("uni") else ""

        def unmap(text):
            return text.replace(UNI, "") if UNI else text
        if UNI:
            names = [n + UNI for n in names]
            for d in descs:
                tl = d.get("transition_list")
                if isinstance(tl, list):
                    for row in tl:
                        if isinstance(row, list):
                            row[:] = [(e[0] + "\u03b2", e[1]) if isinstance(e, tuple) and len(e) == 2
                                      and isinstance(e[0], str) else e for e in row]
        solos = []
        runner = os.path.join(os.path.dirname(os.path.abspath(__file__)), "solo_runner.py")
        for d in descs:
            import json as _json
            p = subprocess.run([sys.executable, runner, repo], input=_json.dumps({"desc_repr": repr(d)}).encode(),
                               stdout=subprocess.PIPE, stderr=subprocess.PIPE, timeout=100,
                               env=dict(os.environ, PYTHONDONTWRITEBYTECODE="1", PYTHONHASHSEED="0"))
            if p.returncode != 0:
                raise RuntimeError("solo runner failed: " + p.stderr.decode()[-500:])
            solos.append(_json.loads(p.stdout.decode()))
        scratch = tempfile.mkdtemp(prefix="verif_batch_")
        cwd = os.getcwd()
        try:
            os.makedirs(os.path.join(scratch, "inputs"))
            os.makedirs(os.path.join(scratch, "outputs"))
            # the path as the user types it: with or without a leading "./"
            rel = ("./inputs/%s.py" if job.get("dotslash") else "inputs/%s.py") % job["file"]
            write_input(os.path.join(scratch, rel), names, descs, job.get("style", 0))
            os.chdir(scratch)
            # the reader
            try:
                read = cr.read_dict_from_file(rel)
                rb = {"error": "", "keys": [unmap(str(k)) for k in read.keys()],
                      "digests": [dg(read[k]) for k in read.keys()]}
            except Exception as exc:
                read = None
                rb = {"error": type(exc).__name__, "keys": [], "digests": []}
            written = [dg(d) for d in descs]
            # the batch run (on what the reader returned, as main() does)
            games = read if isinstance(read, dict) else {n: copy.deepcopy(d) for n, d in zip(names, descs)}
            try:
                results = cr.run_games(games)
                entries = []
                for key, e in results.items():
                    text = {k: str(v) for k, v in e.items()}
                    text["name"] = unmap(str(key))
                    entries.append({"key": unmap(str(key)), "msg": str(e.get("msg")),
                                    "none": e.get("final_strategies") is None,
                                    "fields": [dg(e.get(f)) for f in FIELDS], "text": text})
                out = {"crashed": False, "etype": "", "entries": entries}
            except Exception as exc:
                results = None
                out = {"crashed": True, "etype": type(exc).__name__, "entries": []}
            # the reader again, after the batch run (run_games adds a key to the dicts it was given)
            try:
                read2 = cr.read_dict_from_file(rel)
                rb["keys2"] = [unmap(str(k)) for k in read2.keys()]
                rb["digests2"] = [dg(read2[k]) for k in read2.keys()]
            except Exception as exc:
                rb["keys2"] = ["<" + type(exc).__name__ + ">"]
                rb["digests2"] = []
            # the report
            report = {"error": "", "files": [], "blocks": []}
            cli = {"rc": 0, "files": [], "diff": [], "variants": [], "elsewhere": {"rc": 0, "same": True, "keysok": True}}
            if results is not None:
                before = set(listing(scratch))
                try:
                    cr.save_results_to_file(results, rel)
                    new = sorted(set(listing(scratch)) - before)
                    report["files"] = new
                    api_path = os.path.join(scratch, "outputs", job["file"] + ".txt")
                    report["blocks"] = parse_report(api_path, unmap) if os.path.exists(api_path) else []
                except Exception as exc:
                    report["error"] = type(exc).__name__
                # the command line, in a second scratch directory
                scratch2 = tempfile.mkdtemp(prefix="verif_cli_")
                try:
                    os.makedirs(os.path.join(scratch2, "inputs"))
                    os.makedirs(os.path.join(scratch2, "outputs"))
                    shutil.copy(os.path.join(scratch, rel), os.path.join(scratch2, rel))
                    before2 = set(listing(scratch2))
                    p = subprocess.run([sys.executable, os.path.join(repo, "conditionalrewards.py"), "-f", rel, "-s"],
                                       cwd=scratch2, stdout=subprocess.DEVNULL, stderr=subprocess.DEVNULL,
                                       timeout=120, env=dict(os.environ, PYTHONDONTWRITEBYTECODE="1"))
                    cli["rc"] = p.returncode
                    cli["files"] = sorted(set(listing(scratch2)) - before2)
                    cpath = os.path.join(scratch2, "outputs", job["file"] + ".txt")
                    cblocks = parse_report(cpath, unmap) if os.path.exists(cpath) else []
                    diff = []
                    if len(cblocks) != len(report["blocks"]):
                        diff.append("block count")
                    else:
                        for b, (x, y) in enumerate(zip(cblocks, report["blocks"])):
                            for lx, ly in zip(x, y):
                                if lx["label"] != "Total time" and lx != ly:
                                    diff.append("block %d %s" % (b + 1, lx["label"]))
                            if len(x) != len(y):
                                diff.append("block %d length" % (b + 1))
                    cli["diff"] = diff[:20]
                    # a shorter version of the same file in another folder, older than the report that
                    # exists by now, while inputs/ still holds the long version under the same name: the
                    # report must be rewritten from the file that was named on the command line
                    if job.get("clivariants") and len(names) >= 2 and p.returncode == 0 and cblocks:
                        os.makedirs(os.path.join(scratch2, "work"), exist_ok=True)
                        wrel = "work/%s.py" % job["file"]
                        write_input(os.path.join(scratch2, wrel), names[:-1], descs[:-1], job.get("style", 0))
                        old = os.path.getmtime(cpath) - 3600
                        os.utime(os.path.join(scratch2, wrel), (old, old))
                        p4 = subprocess.run([sys.executable, os.path.join(repo, "conditionalrewards.py"), "-f", wrel, "-s"],
                                            cwd=scratch2, stdout=subprocess.DEVNULL, stderr=subprocess.DEVNULL,
                                            timeout=300, env=dict(os.environ, PYTHONDONTWRITEBYTECODE="1"))
                        eblocks = parse_report(cpath, unmap) if os.path.exists(cpath) else []
                        want = cblocks[:2 * (len(names) - 1)]
                        same = len(eblocks) == len(want) and all(
                            len(x) == len(y) and all(lx == ly for lx, ly in zip(x, y) if lx["label"] != "Total time")
                            for x, y in zip(eblocks, want))
                        try:
                            keys_e = [unmap(str(k)) for k in cr.read_dict_from_file(os.path.join(scratch2, wrel)).keys()]
                        except Exception as exc:
                            keys_e = ["<" + type(exc).__name__ + ">"]
                        cli["elsewhere"] = {"rc": 0 if p4.returncode == 0 else 1, "same": same,
                                            "keysok": keys_e == [unmap(n) for n in names[:-1]]}
                    # other ways of typing the command (module Batch, CliRules): debug logging must not
                    # change the report; without -s nothing is written; an unknown log level is refused
                    cli["variants"] = []
                    for vname, extra, save in ((("debug", ["-l", "d"], True), ("info", ["-l", "INFO"], True),
                                                ("nosave", [], False), ("badlevel", ["-l", "verbose"], True))
                                               if job.get("clivariants") else ()):
                        shutil.rmtree(os.path.join(scratch2, "outputs"))
                        os.makedirs(os.path.join(scratch2, "outputs"))
                        b3 = set(listing(scratch2))
                        p3 = subprocess.run([sys.executable, os.path.join(repo, "conditionalrewards.py"), "-f", rel]
                                            + (["-s"] if save else []) + extra,
                                            cwd=scratch2, stdout=subprocess.DEVNULL, stderr=subprocess.DEVNULL,
                                            timeout=300, env=dict(os.environ, PYTHONDONTWRITEBYTECODE="1"))
                        vblocks = parse_report(cpath, unmap) if os.path.exists(cpath) else []
                        same = len(vblocks) == len(cblocks) and all(
                            len(x) == len(y) and all(lx == ly for lx, ly in zip(x, y) if lx["label"] != "Total time")
                            for x, y in zip(vblocks, cblocks))
                        cli["variants"].append({"name": vname, "rc": 0 if p3.returncode == 0 else 1,
                                                "files": sorted(set(listing(scratch2)) - b3), "same": same})
                finally:
                    shutil.rmtree(scratch2, ignore_errors=True)
            emit({"e": "Batch", "solos": solos, "out": out, "report": report, "readback": rb,
                  "written": written, "cli": cli})
        finally:
            os.chdir(cwd)
            shutil.rmtree(scratch, ignore_errors=True)

    def job_roborta(job):
        """Write the three games of a board with the generator, read them back with the
        solver's reader, project them into the specification's encoding."""
        import copy
        import logging
        import shutil
        import tempfile
        from . import games as G
        rg = _fresh("roberta_generator")
        cr = _fresh("conditionalrewards")
        tad = _fresh("tad")
        logging.disable(logging.CRITICAL)
        b = job["board"]
        pr = job["probs"]
        rden = b.get("rden", 1)
        if rden != 1:       # fractional rewards (numerators over rden)
            b = dict(b, rewards=[[v / rden for v in row] for row in b["rewards"]])
        scratch = tempfile.mkdtemp(prefix="verif_rob_")
        cwd = os.getcwd()
        ev = {"e": "Roborta", "keys": [], "loaderr": "", "games": [], "exact": [], "raw": [], "outcomes": [],
              "created": [], "depiction": {"moves": [], "rewards": [], "loose": []}}
        try:
            os.makedirs(os.path.join(scratch, "inputs"))
            os.chdir(scratch)
            path = "inputs/board.py"
            try:
                if job.get("via") == "manual":
                    sg = _fresh("stochastic_game_from_roborta_board")
                    before = set(listing(scratch))
                    sg.create_sg_from_board(b["moves"], b["rewards"], b["loose"], pr["rb"] / 1e6, pr["lb"] / 1e6,
                                            pr["tb"] / 1e6)
                    if job.get("twice"):     # the same board written again over the first file
                        sg.create_sg_from_board(b["moves"], b["rewards"], b["loose"], pr["rb"] / 1e6,
                                                pr["lb"] / 1e6, pr["tb"] / 1e6)
                    new = sorted(set(listing(scratch)) - before)
                    ev["created"] = new            # C17: the manual entry point names its file after the board
                    path = new[0] if len(new) == 1 else path
                elif job.get("via") == "cli":
                    # the generator's own command line; the board is the one its seed defines
                    import subprocess
                    c = job["cli"]
                    before = set(listing(scratch))
                    args = [sys.executable, os.path.join(repo, "roberta_generator.py"), "--seed", str(c["seed"]),
                            "--width", str(c["W"]), "--length", str(c["L"]), "--max_reward", str(c["maxr"]),
                            "-p", repr(pr["rb"] / 1e6), "-q", repr(pr["lb"] / 1e6), "-r", repr(pr["tb"] / 1e6),
                            "-t", repr(c["lt"] / 1e6)] + (["--force_down"] if c["fd"] else [])
                    p3 = subprocess.run(args, cwd=scratch, stdout=subprocess.DEVNULL, stderr=subprocess.DEVNULL,
                                        timeout=280, env=dict(os.environ, PYTHONDONTWRITEBYTECODE="1"))
                    new = sorted(set(listing(scratch)) - before)
                    ev["created"] = new
                    if p3.returncode != 0 or len(new) != 1:
                        raise RuntimeError("command line failed")
                    path = new[0]
                    m, r, lo = rg.gen_rnd_board(c["seed"], c["L"], c["W"], c["lt"] / 1e6, c["maxr"], c["fd"])
                    ev["board"] = {"L": c["L"], "W": c["W"], "moves": m, "rewards": r, "loose": lo, "rden": 1}
                else:
                    if job.get("other_first"):
                        # history: ANOTHER board of the same shape (rows reversed, every tile's looseness
                        # flipped, rewards + 1, other probabilities) is written to the same path first;
                        # the file must afterwards describe the second board only
                        rg.write_robots(path, b["L"], b["W"], [list(r) for r in reversed(b["moves"])],
                                        [[v + 1 for v in r] for r in reversed(b["rewards"])],
                                        [[1 - v for v in r] for r in b["loose"]],
                                        pr["rb"] / 1e6, pr["lb"] / 1e6, pr["tb"] / 1e6)
                    rg.write_robots(path, b["L"], b["W"], b["moves"], b["rewards"], b["loose"],
                                    pr["tb"] / 1e6, pr["rb"] / 1e6, pr["lb"] / 1e6)
                    if job.get("twice"):     # the same board objects written once more (a sweep over one board)
                        rg.write_robots(path, b["L"], b["W"], b["moves"], b["rewards"], b["loose"],
                                        pr["tb"] / 1e6, pr["rb"] / 1e6, pr["lb"] / 1e6)
                d = cr.read_dict_from_file(path)
                ev["keys"] = [str(k) for k in d.keys()]
                ev["depiction"] = parse_depiction(path)     # the board as drawn in the head comment
            except Exception as exc:
                ev["loaderr"] = type(exc).__name__
                d = {}
            if ev["keys"] == ["game_a", "game_b", "game_c"] and not job.get("loadonly"):
                for k in ev["keys"]:
                    desc = d[k]
                    raw = {"valid": True, "err": "", "minpos": True, "sumdev": 0}
                    try:
                        sgm = tad.StochasticGame(**copy.deepcopy(desc))
                        sgm.check_game()
                        sgm.init_states()
                        if not desc["final_states"]:
                            raise ValueError("no final")
                    except Exception as exc:
                        raw["valid"] = False
                        raw["err"] = type(exc).__name__
                    try:
                        g, exact = G.from_python(desc, 10 ** 6)
                        dev = 0.0
                        for s, row in enumerate(desc["transition_list"]):
                            if desc["players"][s] == "Probabilistic":
                                if any(not (p > 0) for p, _ in row):
                                    raw["minpos"] = False
                                dev = max(dev, abs(sum(p for p, _ in row) - 1.0))
                        raw["sumdev"] = int(min(dev * 1e15, 2 ** 31 - 1))
                    except Exception as exc:
                        g, exact = {"n": 0, "owner": [], "reward": [], "tr": [], "final": []}, False
                        raw["valid"] = False
                        raw["err"] = raw["err"] or type(exc).__name__
                    raw["probsok"] = raw["minpos"] and raw["sumdev"] <= 1000
                    outs = []
                    if job.get("solve", True):
                        for prune in (True, False):
                            try:
                                tad.StochasticGame(prune_states=prune, **copy.deepcopy(desc)).solve()
                                outs.append({"prune": prune, "k": "Return"})
                            except ValueError as exc:
                                outs.append({"prune": prune,
                                             "k": "nosolution" if "no solution" in str(exc).lower() else "ValueError"})
                            except Exception as exc:
                                outs.append({"prune": prune, "k": type(exc).__name__})
                    ev["games"].append(g)
                    ev["exact"].append(bool(exact))
                    ev["raw"].append(raw)
                    ev["outcomes"].append(outs)
            emit(ev)
        finally:
            os.chdir(cwd)
            shutil.rmtree(scratch, ignore_errors=True)

    def pval(x):
        return float("nan") if x["k"] == "nan" else x["n"] / x["d"]

    def board_obs(moves, rewards, loose):
        def grid(m):
            return [[int(v) if isinstance(v, (int, float)) and not isinstance(v, bool) and v == int(v) else -999
                     for v in row] for row in m]
        return {"moves": grid(moves), "rewards": grid(rewards), "loose": grid(loose)}

    def parse_depiction(path):
        """The board as depicted in the comment at the head of a generated file."""
        import re
        syn = {"<-": 0, "<>": 1, "->": 2, "v": 3}
        moves, rewards, loose = [], [], []
        with open(path) as f:
            for line in f:
                if not line.startswith("#"):
                    break
                tiles = re.findall(r"\[(\d+)\|(<-|<>|->|v)\((.)\)\]", line)
                if tiles:
                    rewards.append([int(t[0]) for t in tiles])
                    moves.append([syn[t[1]] for t in tiles])
                    loose.append([1 if t[2] == "X" else 0 for t in tiles])
        return {"moves": moves, "rewards": rewards, "loose": loose}

    def seed_of(p):
        """Seeds beyond 32 bits travel as decimal text (field seedtxt): TLC integers are 32 bit."""
        return int(p["seedtxt"]) if "seedtxt" in p else p["seed"]

    def job_generator(job):
        import shutil
        import subprocess
        import tempfile
        rg = _fresh("roberta_generator")
        cr = _fresh("conditionalrewards")
        scratch = tempfile.mkdtemp(prefix="verif_gen_")
        os.makedirs(os.path.join(scratch, "inputs"))
        cwd = os.getcwd()
        try:
            os.chdir(scratch)
            for op in job["ops"]:
                p = op["p"]
                if op["e"] == "Check":
                    try:
                        rg.check_input(seed_of(p), p["width"], p["length"], pval(p["rb"]), pval(p["lb"]),
                                       pval(p["lt"]), pval(p["tb"]), p["maxr"])
                        emit({"e": "Check", "p": p, "ok": True, "etype": ""})
                    except Exception as exc:
                        emit({"e": "Check", "p": p, "ok": False, "etype": type(exc).__name__})
                elif op["e"] in ("GenCall", "Freq"):
                    try:
                        m, r, lo = rg.gen_rnd_board(seed_of(p), p["length"], p["width"], pval(p["lt"]), p["maxr"], p["fd"])
                        emit({"e": op["e"], "p": p, "ok": True, "etype": "", "board": board_obs(m, r, lo)})
                        # the board now belongs to the caller, who edits it (a hand-tuned variant of
                        # a generated board); the next generation must not see these edits
                        for grid in (m, r, lo):
                            for row in grid:
                                row[:] = [97] * (len(row) + 1)
                            del grid[1:]
                    except Exception as exc:
                        emit({"e": op["e"], "p": p, "ok": False, "etype": type(exc).__name__,
                              "board": {"moves": [], "rewards": [], "loose": []}})
                elif op["e"] == "Main":
                    # every run of the command line gets a directory of its own, except a
                    # deliberate re-run ("again") with the same parameters in the same directory
                    if not op.get("again") and not (op.get("keep") and os.path.isdir(os.path.join(scratch, "inputs"))):
                        shutil.rmtree(os.path.join(scratch, "inputs"), ignore_errors=True)
                        os.makedirs(os.path.join(scratch, "inputs"))
                    before = listing(scratch)
                    args = [sys.executable, os.path.join(repo, "roberta_generator.py"),
                            "--seed", str(seed_of(p)), "--width", str(p["width"]), "--length", str(p["length"]),
                            "--max_reward", str(p["maxr"]), "-p", repr(pval(p["rb"])), "-q", repr(pval(p["lb"])),
                            "-r", repr(pval(p["tb"])), "-t", repr(pval(p["lt"]))] + (["--force_down"] if p["fd"] else [])
                    class _R:
                        returncode = 0
                    etype = ""
                    if op.get("inproc"):
                        # the same entry point called from a long-lived process (a sweep driver)
                        pr = _R()
                        old_argv = sys.argv
                        try:
                            sys.argv = args[1:]
                            rg.main()
                        except SystemExit as exc:
                            pr.returncode = exc.code if isinstance(exc.code, int) else 1
                            etype = "SystemExit"
                        except Exception as exc:
                            pr.returncode = 1
                            etype = type(exc).__name__
                        finally:
                            sys.argv = old_argv
                    else:
                        pr = subprocess.run(args, cwd=scratch, stdout=subprocess.DEVNULL, stderr=subprocess.PIPE,
                                            timeout=200, env=dict(os.environ, PYTHONDONTWRITEBYTECODE="1"))
                        if pr.returncode != 0:
                            lines = [x for x in pr.stderr.decode(errors="replace").strip().split("\n") if x.strip()]
                            etype = lines[-1].split(":")[0].strip()[:60] if lines else "unknown"
                    after = listing(scratch)
                    new = sorted(set(after) - set(before))
                    if op.get("again"):
                        new = after          # the file of the first run must still be the only one
                    keys, board = [], {"moves": [], "rewards": [], "loose": []}
                    if pr.returncode == 0 and len(new) == 1:
                        try:
                            keys = [str(k) for k in cr.read_dict_from_file(new[0]).keys()]
                        except Exception as exc:
                            keys = ["<" + type(exc).__name__ + ">"]
                        board = parse_depiction(new[0])
                    emit({"e": "MainAgain" if op.get("again") else "Main", "p": p, "rc": pr.returncode,
                          "etype": etype, "before": before,
                          "after": after, "keys": keys, "board": board})
        finally:
            os.chdir(cwd)
            shutil.rmtree(scratch, ignore_errors=True)

    def job_vi(job):
        """The reachability iteration sweep by sweep (hook ReachSweep), through the public Solver API."""
        from . import games
        tad = _fresh("tad")
        desc = games.to_python(job["g"])
        sweeps = []
        limit = job.get("limit", 400)

        def sink(event, fields):
            if event == "ReachSweep" and len(sweeps) <= limit:
                sweeps.append(obs.nums([s.reach_probability for s in fields["state_list"]]))

        old = getattr(tad, "VERIF_SINK", None)
        tad.VERIF_SINK = sink
        try:
            sg = tad.StochasticGame(prune_states=False, **desc)
            sg.check_game()
            state_list = sg.init_states()
            solver = tad.Solver(threshold=10 ** (-6), state_list=state_list)
            solver.solve_reachability(sg.transition_list, sg.final_states, False)
            emit({"e": "Sweeps", "sweeps": sweeps[:limit], "truncated": len(sweeps) > limit, "etype": ""})
        except Exception as exc:
            emit({"e": "Sweeps", "sweeps": sweeps[:limit], "truncated": True, "etype": type(exc).__name__})
        finally:
            tad.VERIF_SINK = old

    return {"revdfs": job_revdfs, "malformed": job_malformed, "batch": job_batch, "roborta": job_roborta,
            "generator": job_generator, "vi": job_vi}
