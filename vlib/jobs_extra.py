"""Further job kinds of the harness worker (everything except solver sessions).
Each handler calls the code under test and projects what it observes; no oracle."""
import importlib
import os
import sys

from . import obs


def _fresh(name):
    if name in sys.modules:
        return sys.modules[name]
    return importlib.import_module(name)


def handlers(emit, repo):
    def job_revdfs(job):
        rd = _fresh("reverse_dfs")
        tl = [[("a", t - 1) for t in row] for row in job["tl"]]
        finals = [f - 1 for f in job["finals"]]
        try:
            table = rd.reverse_transition_list(tl)
            if not isinstance(table, dict):
                t_obs = {"ok": False, "etype": "NotADict", "keys": [], "vals": []}
            else:
                keys = list(table.keys())
                t_obs = {"ok": True, "etype": "",
                         "keys": [k + 1 if isinstance(k, int) else 0 for k in keys],
                         "vals": [[u + 1 if isinstance(u, int) else 0 for u in table[k]] for k in keys]}
        except BaseException as exc:
            t_obs = {"ok": False, "etype": type(exc).__name__, "keys": [], "vals": []}
        try:
            ret = rd.reverse_dfs(tl, finals)
            if not isinstance(ret, list):
                r_obs = {"ok": False, "etype": "NotAList", "val": []}
            else:
                r_obs = {"ok": True, "etype": "", "val": [x + 1 if isinstance(x, int) else 0 for x in ret]}
        except BaseException as exc:
            r_obs = {"ok": False, "etype": type(exc).__name__, "val": []}
        emit({"e": "RevDFS", "table": t_obs, "ret": r_obs})

    def decode(v):
        """Tagged Python value (module Malformed) -> the Python value."""
        ty = v["ty"]
        if ty == "int":
            return v["v"]
        if ty == "float":
            return v["v"] / v["d"]
        if ty == "str":
            return v["s"]
        if ty == "none":
            return None
        if ty == "tuple":
            return tuple(decode(x) for x in v["items"])
        if ty == "list":
            return [decode(x) for x in v["items"]]
        raise ValueError("bad tagged value " + repr(v))

    def msg_class(msg):
        if msg == "Game solved":
            return "solved"
        if msg == "Game not solved":
            return "notsolved"
        if isinstance(msg, str) and msg.startswith("Error while solving the game"):
            return "error"
        return "other"

    def job_malformed(job):
        import copy
        import logging
        tad = _fresh("tad")
        cr = _fresh("conditionalrewards")
        logging.disable(logging.CRITICAL)
        from . import games
        desc = {k: decode(job["tg"][k]) for k in ("rewards", "players", "transition_list", "final_states")}
        base = games.to_python(job["base"])
        for prune in (True, False):
            try:
                d = copy.deepcopy(desc)
                tad.StochasticGame(prune_states=prune, **d).solve()
                emit({"e": "Direct", "prune": prune, "k": "Return", "etype": ""})
            except Exception as exc:
                emit({"e": "Direct", "prune": prune, "k": "Raise", "etype": type(exc).__name__})
        try:
            gd = {"good_first": copy.deepcopy(base), "bad": copy.deepcopy(desc), "good_last": copy.deepcopy(base)}
            out = cr.run_games(gd)
            keys = list(out.keys())
            emit({"e": "Batch", "crashed": False, "etype": "", "keys": [str(k) for k in keys],
                  "msgs": [msg_class(out[k].get("msg")) for k in keys],
                  "hasres": [out[k].get("final_strategies") is not None for k in keys]})
        except Exception as exc:
            emit({"e": "Batch", "crashed": True, "etype": type(exc).__name__, "keys": [], "msgs": [], "hasres": []})

    return {"revdfs": job_revdfs, "malformed": job_malformed}
