"""The solver conformance flow shared by C01..C06, C10, C13, C14:

  TLC (Gen_Main)      -> game descriptions            (spec -> code)
  harness (pool)      -> recorded sessions            (the real code runs)
  TLC (Trace_Solver)  -> one verdict per session      (code -> spec)
"""
import json
import os
import shutil
import tempfile
import time

from . import tlc, pool, obs


def generate(family, k, seed, workdir):
    out = os.path.join(workdir, "gen_%s_%d.json" % (family, seed))
    r = tlc.run("Gen_Main", env={"GEN_FAMILY": family, "GEN_K": str(k), "GEN_OUT": out},
                args=["-seed", str(seed)], timeout=1800)
    if not r.ok or not os.path.exists(out):
        raise RuntimeError("generation failed for %s: %s\n%s" % (family, r.errors, r.out[-2000:]))
    with open(out) as f:
        return json.load(f)


def record(sessions, repo, budget=10.0, nproc=16):
    """sessions: list of dicts with tid, fam, exact, descs, script[, rel].
    Adds 'events' (and 'status') to each by running the real code."""
    jobs = [{"kind": "solver", "descs": s["descs"], "script": s["script"],
             "numtypes": bool(s.get("numtypes")), "debuglog": bool(s.get("debuglog")),
             "rmulpow": int(s.get("rmulpow", 0)),
             "budget": s.get("budget", budget)} for s in sessions]
    results = pool.run_jobs(jobs, repo, budget=budget, nproc=nproc)
    for s, (events, status) in zip(sessions, results):
        if status == "timeout":
            events = events + [{"e": "Timeout"}]
        elif status != "ok":
            raise RuntimeError("harness failure in session %s: %s" % (s["tid"], status))
        s["events"] = events
    return sessions


def validate(sessions, workdir, nshards=None, timeout=3600, module="Trace_Solver"):
    """Judge recorded sessions with TLC; returns (verdicts by tid, stats)."""
    if nshards is None:
        nshards = max(1, min(14, len(sessions) // 60))
    shards = [[] for _ in range(nshards)]
    for i, s in enumerate(sessions):
        rec = {k: s[k] for k in ("tid", "fam", "exact", "descs", "events")}
        rec["rel"] = s.get("rel", {"kind": "none"})
        rec["eps"] = s.get("eps", 1000)          # the threshold in nano units (10^-6)
        rec["rmulpow"] = int(s.get("rmulpow", 0)) # rewards were multiplied by 2**rmulpow (0: not)
        obs.check_ints(rec)
        shards[i % nshards].append(rec)
    # big sessions (thousands of states) get shards of their own
    bigs = [r for sh in shards for r in sh if r["descs"][0]["n"] > 400]
    if bigs:
        shards = [[r for r in sh if r["descs"][0]["n"] <= 400] for sh in shards] + [[b] for b in bigs]
    jobs = []
    for i, sh in enumerate(shards):
        if not sh:
            continue
        path = os.path.join(workdir, "trace_%d.json" % i)
        with open(path, "w") as f:
            json.dump(sh, f)
        jobs.append(dict(module=module, env={"TRACE_FILE": path}, workers=1, timeout=timeout,
                         heap="6g" if any(r["descs"][0]["n"] > 400 for r in sh) else "3g", stack="512m"))
    t0 = time.time()
    results = tlc.run_parallel(jobs, nproc=16)
    verdicts = {}
    stats = {"generated": 0, "distinct": 0, "tlc_wall": time.time() - t0, "tlc_runs": len(jobs)}
    for r in results:
        if not r.ok:
            raise RuntimeError("TLC failed on a trace shard: %s\n%s" % (r.errors, r.out[-3000:]))
        stats["generated"] += r.generated
        stats["distinct"] += r.distinct
        for v in r.printed:
            if isinstance(v, dict) and "tid" in v:
                verdicts[v["tid"]] = v
    missing = [s["tid"] for s in sessions if s["tid"] not in verdicts]
    if missing:
        raise RuntimeError("no verdict for sessions %s" % missing[:10])
    return verdicts, stats


def record_validate(sessions, repo, workdir, budget=30.0, long_budget=300.0, timeout=6 * 3600):
    """record + validate; a session whose verdict contains a timeout that the specification
    does not allow (clause C06.Timeout) is re-run ALONE with a long budget before the
    timeout is believed: a loaded machine must not turn a slow solve into a violation."""
    record(sessions, repo, budget=budget)
    verdicts, st = validate(sessions, workdir, timeout=timeout)
    slow = [s for s in sessions if any(c.startswith("C06.Timeout") for c in verdicts[s["tid"]]["fails"])]
    if slow:
        for s in slow:
            s["budget"] = long_budget
            s.pop("events", None)
        record(slow, repo, budget=long_budget, nproc=8)
        v2, st2 = validate(slow, workdir, timeout=timeout)
        verdicts.update(v2)
        st["distinct"] += st2["distinct"]
        st["generated"] += st2["generated"]
    st["rerun_with_long_budget"] = len(slow)
    return verdicts, st
