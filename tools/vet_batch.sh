#!/bin/bash
# usage: vet_batch.sh "<ID> <K> <check> [<check>...]" ...   -> one summary line per seed
for x in "$@"; do
  set -- $x
  id=$1; k=$2; shift 2
  out=$(/verif/tools/vet_seed.sh $id $k "$@" 2>&1)
  clean=$(echo "$out" | grep "demo on clean" | sed 's/.*exit=//')
  tests=$(echo "$out" | grep -o "[0-9]* passed" | head -1)
  with=$(echo "$out" | grep "demo with change" | sed 's/.*exit=//')
  res=$(echo "$out" | grep -- "-> " | tr -d '\n')
  first=$(echo "$out" | grep "clause:" | head -1 | cut -c1-110)
  echo "$id-$k clean=$clean tests='$tests' with=$with $res | $first"
done
