#!/bin/bash
# usage: seed_sweep.sh <seed> [<seed> ...]   runs every quick check under each seed, prints one line per run
for seed in "$@"; do
  for p in C01 C02 C03 C04 C05 C06 C07 C08 C09 C10 C11 C12 C13 C14 C15 C16 C17; do
    out=$(VERIF_SEED=$seed ./run.py check $p --quick 2>&1); rc=$?
    echo "seed=$seed $p rc=$rc $(echo "$out" | grep -E '^(OK|VIOLATION|MACHINERY)' | head -2 | cut -c1-160 | tr '\n' ' ')"
    if [ $rc -ne 0 ]; then echo "$out" | grep -E "clause|Error|error" | head -5 | cut -c1-300; fi
  done
done
