#!/usr/bin/env python3
"""Writes /verif/MANIFEST.json from the table below (single source of truth)."""
import json, os
HERE = os.path.dirname(os.path.dirname(os.path.abspath(__file__)))

SOLVER_NOTE = ("Trusted: TLC and the JVM, the harness projection vlib/obs.py (floats -> 9-digit fixed point), the "
               "hooks in tad.solve(). Exact game values exist only on the exact domain (n<=7, weights<=9); "
               "'convergence tolerance' is read as eps*H(G) (DESIGN section 5). Termination of Python loops is "
               "observed with a 10 s budget per call, not proved.")

CHECKS = {
 "C01": ("TLC trace validation of recorded solver runs against exact max-min reachability values computed in TLA+ (strategy enumeration + Cramer), on TLC-generated game families",
         "Every reported probability vector of every explored game is compared by TLC with the exact game value (final = 1, zero set exact, never above, within eps*H), with pruning on and off; families are TLC-generated (random cyclic games, stopping games, dead-branch patterns, exact ties). Exhaustive within each generated family, sampled across the space of games.", "7 C01"),
 "C02": ("TLC trace validation: reported rewards vs exact max-min total reward of the conditioned game built in TLA+ from the reported strategies and zero set",
         "For every explored stopping game TLC rebuilds the conditioned game (module Conditioning) from what the solver reported, computes its exact max-min expected total reward and compares every state in the claimed domain within eps*H'. MC_Solver additionally model-checks that conditioning preserves the stopping property.", "7 C02"),
 "C03": ("TLC trace validation of the solver's working transition lists (hook before the reward phase) against module Conditioning + model checking of pruning confluence (MC_Solver)",
         "The conditioned lists of every explored run are compared structurally by TLC with Conditioned(g, R, Z): no dead edge anywhere, order and renormalised weights, Player 2 untouched, nothing else removed on the reachable part. MC_Solver checks that PrunePath/ClearRound in any order reach the same game.", "7 C03"),
 "C04": ("TLC trace validation of reported reachability strategies against exact optimal action sets (three zones: must / must-not / don't-care)",
         "Reported strategy lists are judged by TLC against the exact successor values: sub-list in transition order, every exactly optimal action present, no clearly worse action, None on probabilistic states, equal with pruning on/off.", "7 C04"),
 "C05": ("TLC trace validation of final strategies: inclusion in the reachability strategy for all games, exact optimal sets on the decided domain",
         "C05.Subset on every run; C05.Exact wherever the exact conditioned rewards decide the competition beyond the numerical guard (acyclic ties, zero ties, separated values).", "7 C05"),
 "C06": ("TLC trace validation of outcomes (Return / no-solution ValueError iff pruned and initial state in the exact zero set / nothing else, no timeout) + liveness of the pipeline model",
         "Every call on every explored stopping game must end in a complete result or in the no-solution error exactly under its guard; any other exception or a hang (10 s budget for games that take < 10 ms) is a violation. MC_Solver checks termination (liveness) and StoppingPreserved at the design level.", "7 C06"),
 "C10": ("TLC trace validation of call histories (TLC-generated scripts over same/fresh object x prune flag) with before/after snapshots of the caller's description",
         "All call scripts of length <= 3 over {same object, fresh object} x {prune, no prune} are sampled per game; TLC checks the description's canonical text is unchanged after every call and every repeated call returns the identical result (DescFrozen, Repeatable).", "7 C10"),
 "C13": ("TLC trace validation of pairs of presentations (TLC-generated renumbering / reordering / renaming; TLC verifies the transformation and compares the two runs)",
         "For each sampled game and presentation change TLC checks descs[2] = TransformGame(descs[1], rel), then that solvability, zero set, probabilities, rewards (within 2 eps H) and clearly decided strategies correspond under the renaming.", "7 C13"),
 "C07": ("TLC trace validation of reverse_dfs / reverse_transition_list on TLC-enumerated and sampled graphs (exact least fixed point in TLA+) and on large graphs (O(edges) certificate clause checked by TLC)",
         "All graphs with 2 states (and, in thorough, 3 states) and <= 2 edges per state x all final sequences of length <= 3 with repetition are enumerated by TLC; 3-8 state graphs are sampled; chains of thousands of states, diamonds, random graphs and the committed inputs are checked with a certificate that TLC verifies locally. Returned list must be strictly ascending and equal the backward-reachable non-final set; the reversed table must have every key and the right multiplicities.", "7 C07"),
 "C08": ("TLC decides probabilistic bisimilarity (partition refinement, spec/Bisim.tla) between each game the generator wrote and the game that the Roborta rules define (spec/Roborta.tla), on TLC-generated boards",
         "Boards are generated by TLC (all boards with <= 2 tiles, in thorough <= 3 tiles, sampled up to 12 tiles; every arrow / loose layout; sampled probability triples). The file is written by the repository's generator and read back by the repository's reader; TLC builds the abstract game from the rules of C08 and checks bisimilarity from the initial states with labels, owners, rewards and final states, for all three variants, plus exactness of the emitted probabilities.", "7 C08"),
 "C11": ("TLC trace validation of generated files (loads into game_a/b/c, proper, shape clauses) + solver-flow trace validation of every emitted game in the batch runner's order + command-line runs on TLC-generated accepted parameter sets",
         "Each generated file (write_robots and the manual entry point) must load into exactly the three games, pass the solver's validation, have positive probabilities summing to 1, a single absorbing winning final state and an absorbing losing state; each game is then solved with pruning and, if that did not fail, without, and the outcome is judged by Trace_Solver (complete result, or no-solution exactly when the initial state is in the exact zero set; a timeout is accepted only as the listed known finding K3, when TLC shows the conditioned game is not stopping).", "7 C11"),
 "C15": ("TLC trace validation of check_input / gen_rnd_board / command-line events against the generator contract (spec/GeneratorRules.tla, state machine spec/Generator.tla with memo = reproducibility), on TLC-generated boundary parameter sets and call histories",
         "Every boundary of the eight documented range checks is exercised alone and in sampled combinations (including NaN and the value 1-1e-6), through check_input and through the command line in scratch directories (nothing may be written on refusal); boards are checked for shape, ranges, arrows, force-down iff, reproducibility over histories p,q,p,p',p, and loose-tile frequency at 6 sigma on 30x30 boards.", "7 C15"),
 "C17": ("TLC trace validation of created file names against FileName(p) (spec/GeneratorRules.tla) over the complete k/100 sweep of each probability field, with collision tracking across the sweep",
         "All 396 whole-percent values (k = 1..99 in each of the four probability fields) plus sampled parameter sets go through the command line, each in a directory of its own; TLC checks that exactly one file is created, that its name is FileName(p), and that no two different whole-percent parameter sets of the session map to one name.", "7 C17"),
 "C09": ("TLC generation of every malformation (12 documented rules x every position x boundary / ill-typed values, module Malformed) + TLC trace validation of the outcome of solve() and of run_games",
         "For each base game every way of breaking one rule at one position is generated by TLC, which also re-checks that the named rule is really violated; the real solver must raise ValueError in both modes and the batch runner must record the message and still solve the other games.", "7 C09"),
 "C12": ("model checking of the batch protocol (Batch.tla, with two counter-models) + TLC trace validation of run_games on TLC-generated ordered dictionaries against solo runs",
         "The run_games loop is a TLA+ state machine (RunPruned / RunUnpruned / SkipUnpruned with the per-game flag); TLC checks Isolation, FailureProtocol, KeysAndOrder and termination on all dictionaries of <= 3 abstract games and shows that the no-copy and sticky-flag variants violate them. Every recorded batch run is replayed through the machine and each entry compared field by field with solving that game alone.", "7 C12"),
 "C16": ("TLC trace validation of the saved report, the reader and the command line against module Report (fixed field list, block order, text of every value)",
         "For every generated dictionary the input file is written in two textual styles, read back with the repository's reader (digest equality per game), run, saved (API and CLI); TLC checks the file name, block count and order, the label list and that every line's text equals the text form of the batch entry's value, and that 'Are equal' is the equality of the two strategy lists.", "7 C16"),
 "C14": ("TLC trace validation of the two diagnostic vectors against exact Markov-chain / one-player values under the reported strategies",
         "Where every reported final strategy in the domain is a single undisputed action, TLC computes the reach probability under both final strategies and the min-reward value with Player 2 restricted to its reachability strategy, and compares within eps*H.", "7 C14"),
}

ENGINE = {}
NOTES = {
 "C08": "Trusted: TLC, the JVM, the harness projection of file games into integer weights per million (its exactness is itself a clause). Reading where C08 is silent: a failed robot move re-lands the robot on its own tile through that tile's break check.",
 "C11": "Trusted: as C08 plus the solver flow; timeouts are decisive only after a re-run with a long budget (240 s quick / 1800 s thorough).",
 "C15": "Trusted: TLC, the JVM, the harness (argument formatting for the command line, parsing of the board depiction comment). The pseudo-random stream is an uninterpreted function for the specification.",
 "C17": "Trusted: as C15.",
 "C07": "Trusted: TLC, the JVM, the harness projection. For graphs above 300 states exactness is established by a certificate (ranks) that the harness proposes and TLC verifies; termination is observed with a 120 s budget.",
 "C09": "Trusted: TLC, the JVM, the decoder of the tagged Python values (vlib/jobs_extra.py: decode). Only the kinds of ill-typed value the property lists are generated; messages are not compared.",
 "C12": "Trusted: TLC, the JVM, the harness (it also computes the solo results by calling the real solver on fresh deep copies - the spec supplies the protocol, not the numbers). Values are compared through digests of their repr.",
 "C16": "Trusted: TLC, the JVM, the harness's report parser (label / text split at the first ': '). Wall-clock lines are excluded.",
}


def main():
    m = {
     "version": 1,
     "setup_cmd": "cd /verif && /venv/bin/python tools/setup_check.py",
     "hooks": {
      "guard": "CONDREWARDS_VERIF",
      "enable": "CONDREWARDS_VERIF=1 in the environment of the harness worker processes plus a sink installed in tad.VERIF_SINK (pure Python, nothing to build); four call sites: after solve_reachability, before the reward phase, after every reachability sweep, after every reward sweep",
      "baseline_off_cmd": "cd /repo && /venv/bin/python -m pytest -ra -q -p no:cacheprovider --timeout=900 --continue-on-collection-errors",
      "source_commits": ["c53f609", "89b76b8", "81c58f9"],
      "add_only": True
     },
     "engines": [
      {"name": "tlc-trace-validation", "path": "spec/Trace_Solver.tla", "serves_properties": sorted(CHECKS),
       "kind_free_text": "TLC judges sessions recorded from the real code with the clauses of spec/Clauses.tla"},
      {"name": "tlc-behaviour-generation", "path": "spec/Gen_Main.tla", "serves_properties": sorted(CHECKS),
       "kind_free_text": "TLC generates game descriptions, call scripts and presentation changes"},
      {"name": "tlc-model-checking", "path": "spec/MC_Solver.tla", "serves_properties": ["C02", "C03", "C04", "C05", "C06", "C10", "C14"],
       "kind_free_text": "design-level model checking of the pipeline state machine (spec/Solver.tla)"},
      {"name": "tlc-batch", "path": "spec/Batch.tla", "serves_properties": ["C12", "C16"],
       "kind_free_text": "batch protocol model (MC_Batch*.cfg) and trace validation (spec/Trace_Batch.tla, spec/Report.tla)"},
      {"name": "tlc-roborta", "path": "spec/Roborta.tla", "serves_properties": ["C08", "C11"],
       "kind_free_text": "board generation (spec/Gen_Boards.tla), rules model, bisimulation (spec/Bisim.tla), trace validation (spec/Trace_Roborta.tla)"},
      {"name": "tlc-generator", "path": "spec/Generator.tla", "serves_properties": ["C11", "C15", "C17"],
       "kind_free_text": "parameter generation (spec/Gen_Params.tla), generator contract and state machine, trace validation (spec/Trace_Generator.tla)"},
      {"name": "tlc-graphs", "path": "spec/ReverseDFS.tla", "serves_properties": ["C07"],
       "kind_free_text": "graph generation (spec/Gen_Graphs.tla) and trace validation (spec/Trace_RevDFS.tla)"},
      {"name": "tlc-malformed", "path": "spec/Malformed.tla", "serves_properties": ["C09"],
       "kind_free_text": "malformation generation (spec/Gen_MalMain.tla) and trace validation (spec/Trace_Malformed.tla)"},
      {"name": "tlc-vi-machine", "path": "spec/VI.tla", "serves_properties": ["C01"],
       "kind_free_text": "growth beyond the listed properties: reachability value iteration as an interval machine (MC_VI: tolerance lemma) with per-sweep trace validation (Trace_VI); ./run.py extra vi"},
      {"name": "tlc-vir-machine", "path": "spec/VIR.tla", "serves_properties": ["C02", "C14"],
       "kind_free_text": "growth beyond the listed properties: reward iteration (three quantities, one stopping test) validated sweep by sweep inside Trace_Solver (TraceRewardSweep); ./run.py extra vir"},
      {"name": "suite-traces", "path": "vlib/suite_plugin.py", "serves_properties": ["C01", "C02", "C03", "C04", "C05", "C06", "C07", "C10", "C14"],
       "kind_free_text": "the repository's own 57 tests, unedited, as a source of traces judged by Trace_Solver and Trace_RevDFS; ./run.py extra suite"}
     ],
     "checks": [],
     "notes": "run.py exit codes: 0 held / 1 VIOLATION / 2 machinery failure. Known findings: known_findings.json.",
     "not_applicable": []
    }
    for pid in sorted(CHECKS):
        tech, text, ref = CHECKS[pid]
        m["checks"].append({
            "property_id": pid,
            "quick_cmd": "./run.py check %s --quick" % pid,
            "thorough_cmd": "./run.py check %s --thorough" % pid,
            "evidence_file": "/verif/evidence/%s.json" % pid,
            "replay_cmd_template": "./run.py replay {path}",
            "engine": ENGINE.get(pid, "tlc-trace-validation"),
            "level_claimed": {"category": "model_checking", "text": text, "design_ref": "DESIGN.md section " + ref},
            "level_note": NOTES.get(pid, SOLVER_NOTE),
            "technique": tech,
        })
    allp = ["C%02d" % i for i in range(1, 18)]
    for pid in allp:
        if pid not in CHECKS:
            m["not_applicable"].append({"property_id": pid, "reason": "check under construction (see DESIGN.md section 7)"})
    with open(os.path.join(HERE, "MANIFEST.json"), "w") as f:
        json.dump(m, f, indent=1)
        f.write("\n")

if __name__ == "__main__":
    main()
