#!/usr/bin/env python3
"""Writes /verif/MANIFEST.json from the table below (single source of truth)."""
import json, os
HERE = os.path.dirname(os.path.dirname(os.path.abspath(__file__)))

SOLVER_NOTE = ("Trusted: TLC and the JVM, the harness projection vlib/obs.py (floats -> 9-digit fixed point), the "
               "hooks in tad.solve(). Exact game values exist only on the exact domain (n<=7, weights<=9); "
               "'convergence tolerance' is read as eps*H(G) (DESIGN section 5). Termination of Python loops is "
               "observed with a 10 s budget per call, not proved.")

CHECKS = {
 "C01": ("TLC trace validation of recorded solver runs against exact max-min reachability values computed in TLA+ (strategy enumeration + Cramer), on TLC-generated game families",
         "Every reported probability vector of every explored game is compared by TLC with the exact game value (final = 1, zero set exact, never above, within eps*H), with pruning on and off; families are TLC-generated (random cyclic games, stopping games, dead-branch patterns, exact ties). Exhaustive within each generated family, sampled across the space of games.", "7 C01"),
 "C02": ("TLC trace validation: reported rewards vs exact max-min total reward of the conditioned game built in TLA+ from the reported strategies and zero set",
         "For every explored stopping game TLC rebuilds the conditioned game (module Conditioning) from what the solver reported, computes its exact max-min expected total reward and compares every state in the claimed domain within eps*H'. MC_Solver additionally model-checks that conditioning preserves the stopping property.", "7 C02"),
 "C03": ("TLC trace validation of the solver's working transition lists (hook before the reward phase) against module Conditioning + model checking of pruning confluence (MC_Solver)",
         "The conditioned lists of every explored run are compared structurally by TLC with Conditioned(g, R, Z): no dead edge anywhere, order and renormalised weights, Player 2 untouched, nothing else removed on the reachable part. MC_Solver checks that PrunePath/ClearRound in any order reach the same game.", "7 C03"),
 "C04": ("TLC trace validation of reported reachability strategies against exact optimal action sets (three zones: must / must-not / don't-care)",
         "Reported strategy lists are judged by TLC against the exact successor values: sub-list in transition order, every exactly optimal action present, no clearly worse action, None on probabilistic states, equal with pruning on/off.", "7 C04"),
 "C05": ("TLC trace validation of final strategies: inclusion in the reachability strategy for all games, exact optimal sets on the decided domain",
         "C05.Subset on every run; C05.Exact wherever the exact conditioned rewards decide the competition beyond the numerical guard (acyclic ties, zero ties, separated values).", "7 C05"),
 "C06": ("TLC trace validation of outcomes (Return / no-solution ValueError iff pruned and initial state in the exact zero set / nothing else, no timeout) + liveness of the pipeline model",
         "Every call on every explored stopping game must end in a complete result or in the no-solution error exactly under its guard; any other exception or a hang (10 s budget for games that take < 10 ms) is a violation. MC_Solver checks termination (liveness) and StoppingPreserved at the design level.", "7 C06"),
 "C10": ("TLC trace validation of call histories (TLC-generated scripts over same/fresh object x prune flag) with before/after snapshots of the caller's description",
         "All call scripts of length <= 3 over {same object, fresh object} x {prune, no prune} are sampled per game; TLC checks the description's canonical text is unchanged after every call and every repeated call returns the identical result (DescFrozen, Repeatable).", "7 C10"),
 "C13": ("TLC trace validation of pairs of presentations (TLC-generated renumbering / reordering / renaming; TLC verifies the transformation and compares the two runs)",
         "For each sampled game and presentation change TLC checks descs[2] = TransformGame(descs[1], rel), then that solvability, zero set, probabilities, rewards (within 2 eps H) and clearly decided strategies correspond under the renaming.", "7 C13"),
 "C14": ("TLC trace validation of the two diagnostic vectors against exact Markov-chain / one-player values under the reported strategies",
         "Where every reported final strategy in the domain is a single undisputed action, TLC computes the reach probability under both final strategies and the min-reward value with Player 2 restricted to its reachability strategy, and compares within eps*H.", "7 C14"),
}

def main():
    m = {
     "version": 1,
     "setup_cmd": "cd /verif && /venv/bin/python tools/setup_check.py",
     "hooks": {
      "guard": "CONDREWARDS_VERIF",
      "enable": "CONDREWARDS_VERIF=1 in the environment of the harness worker processes plus a sink installed in tad.VERIF_SINK (pure Python, nothing to build)",
      "baseline_off_cmd": "cd /repo && /venv/bin/python -m pytest -ra -q -p no:cacheprovider --timeout=900 --continue-on-collection-errors",
      "source_commits": ["c53f609"],
      "add_only": True
     },
     "engines": [
      {"name": "tlc-trace-validation", "path": "spec/Trace_Solver.tla", "serves_properties": sorted(CHECKS),
       "kind_free_text": "TLC judges sessions recorded from the real code with the clauses of spec/Clauses.tla"},
      {"name": "tlc-behaviour-generation", "path": "spec/Gen_Main.tla", "serves_properties": sorted(CHECKS),
       "kind_free_text": "TLC generates game descriptions, call scripts and presentation changes"},
      {"name": "tlc-model-checking", "path": "spec/MC_Solver.tla", "serves_properties": ["C02", "C03", "C05", "C06", "C10"],
       "kind_free_text": "design-level model checking of the pipeline state machine (spec/Solver.tla)"}
     ],
     "checks": [],
     "notes": "run.py exit codes: 0 held / 1 VIOLATION / 2 machinery failure. Known findings: known_findings.json.",
     "not_applicable": []
    }
    for pid in sorted(CHECKS):
        tech, text, ref = CHECKS[pid]
        m["checks"].append({
            "property_id": pid,
            "quick_cmd": "./run.py check %s --quick" % pid,
            "thorough_cmd": "./run.py check %s --thorough" % pid,
            "evidence_file": "/verif/evidence/%s.json" % pid,
            "replay_cmd_template": "./run.py replay {path}",
            "engine": "tlc-trace-validation",
            "level_claimed": {"category": "model_checking", "text": text, "design_ref": "DESIGN.md section " + ref},
            "level_note": SOLVER_NOTE,
            "technique": tech,
        })
    allp = ["C%02d" % i for i in range(1, 18)]
    for pid in allp:
        if pid not in CHECKS:
            m["not_applicable"].append({"property_id": pid, "reason": "check under construction (see DESIGN.md section 7)"})
    with open(os.path.join(HERE, "MANIFEST.json"), "w") as f:
        json.dump(m, f, indent=1)
        f.write("\n")

if __name__ == "__main__":
    main()
