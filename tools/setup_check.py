#!/usr/bin/env python3
"""setup_cmd: nothing is built; verify that the tools the checks need are present
and that every specification module parses."""
import os, subprocess, sys
HERE = os.path.dirname(os.path.dirname(os.path.abspath(__file__)))
CP = "/opt/veriftools/tla/tla2tools.jar:/opt/veriftools/tla/CommunityModules-deps.jar"
ok = True
for tool in ("java",):
    if subprocess.call(["which", tool], stdout=subprocess.DEVNULL) != 0:
        print("missing tool:", tool); ok = False
spec = os.path.join(HERE, "spec")
for f in sorted(os.listdir(spec)):
    if f.endswith(".tla"):
        r = subprocess.run(["java", "-cp", CP, "tla2sany.SANY", f], cwd=spec, stdout=subprocess.PIPE, stderr=subprocess.STDOUT)
        out = r.stdout.decode()
        if "*** Errors" in out or "Fatal" in out or "Could not" in out:
            print("SANY failed on", f); print(out[-800:]); ok = False
os.makedirs(os.path.join(HERE, "evidence"), exist_ok=True)
os.makedirs(os.path.join(HERE, "replays"), exist_ok=True)
print("setup ok" if ok else "setup FAILED")
sys.exit(0 if ok else 1)
