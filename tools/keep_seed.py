#!/usr/bin/env python3
"""keep_seed.py <PROP> <K> <caught_by comma list> <needs text> [<summary>]
Copies a vetted sub-agent change into /verif/seeded/<PROP>-<K>/ with meta.json."""
import json, os, shutil, sys
prop, k, caught, needs = sys.argv[1:5]
src_prop = prop
if prop.endswith("b"):          # second round of sub-agents: /tmp/wt/<ID>b_out, seeds numbered from 3
    prop = prop[:-1]
    dst_k = str(int(k) + 2)
elif prop.endswith("c"):        # third round: seeds numbered from 6
    prop = prop[:-1]
    dst_k = str(int(k) + 5)
elif prop.endswith("d"):        # fourth round: seeds numbered from 9
    prop = prop[:-1]
    dst_k = str(int(k) + 8)
elif prop.endswith("e"):        # fifth round: seeds numbered from 12
    prop = prop[:-1]
    dst_k = str(int(k) + 11)
elif prop.endswith("f"):        # sixth round: seeds numbered from 15
    prop = prop[:-1]
    dst_k = str(int(k) + 14)
elif prop.endswith("g"):        # seventh round: seeds numbered from 18
    prop = prop[:-1]
    dst_k = str(int(k) + 17)
elif prop.endswith("h"):        # eighth round: seeds numbered from 21
    prop = prop[:-1]
    dst_k = str(int(k) + 20)
elif prop.endswith("i"):        # ninth round: seeds numbered from 24
    prop = prop[:-1]
    dst_k = str(int(k) + 23)
elif prop.endswith("j"):        # tenth round: seeds numbered from 27
    prop = prop[:-1]
    dst_k = str(int(k) + 26)
else:
    dst_k = k
summary = sys.argv[5] if len(sys.argv) > 5 else ""
src = "/tmp/wt/%s_out" % src_prop
dst = "/verif/seeded/%s-%s" % (prop, dst_k)
os.makedirs(dst, exist_ok=True)
shutil.copy(os.path.join(src, "seed%s.diff" % k), os.path.join(dst, "patch.diff"))
shutil.copy(os.path.join(src, "seed%s_demo.py" % k), os.path.join(dst, "demo.py"))
meta = {
    "breaks_property": prop,
    "summary": summary,
    "needs_to_manifest": needs,
    "confirmed": "tools/vet_seed.sh %s %s <checks>: patch applies to a scratch copy of /repo HEAD, 57 tests pass, demo exits 0 without and 1 with the change" % (src_prop, k),
    "detected_by": [c for c in caught.split(",") if c],
    "ran": ["./run.py check %s --quick --repo <scratch copy with patch>" % c for c in caught.split(",") if c],
}
json.dump(meta, open(os.path.join(dst, "meta.json"), "w"), indent=1)
print("kept", dst)
