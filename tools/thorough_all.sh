#!/bin/bash
# runs every thorough check once; one summary line per property
for p in "$@"; do
  s=$(date +%s)
  out=$(./run.py check $p --thorough 2>&1); rc=$?
  echo "$p rc=$rc $(( $(date +%s) - s ))s $(echo "$out" | grep -E '^(OK|VIOLATION|MACHINERY|KNOWN)' | head -3 | cut -c1-150 | tr '\n' ' ')"
  if [ $rc -ne 0 ]; then echo "$out" | grep -E "clause|Error|error|Traceback" | head -8 | cut -c1-300; fi
done
