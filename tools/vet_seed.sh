#!/bin/bash
# usage: vet_seed.sh <PROP> <K> [<check-prop> ...]
# Confirms a sub-agent's seeded change (/tmp/wt/<PROP>_out/seed<K>.diff + demo):
# applies to a scratch copy of /repo HEAD, suite passes, demo passes without / fails with;
# then runs the quick checks named (default: PROP) against the copy.
set -u
P=$1; K=$2; shift 2
CHECKS=${@:-$P}
out=/tmp/wt/${P}_out
tmp=$(mktemp -d /tmp/vet.XXXXXX)
cp -r /repo/. "$tmp/"
( cd "$tmp" && /venv/bin/python "$out/seed${K}_demo.py" >/dev/null 2>&1 ); echo "demo on clean tree: exit=$?"
if ! git -C "$tmp" apply "$out/seed${K}.diff"; then echo "PATCH DOES NOT APPLY"; rm -rf "$tmp"; exit 3; fi
( cd "$tmp" && /venv/bin/python -m pytest -q -p no:cacheprovider 2>&1 | tail -1 )
( cd "$tmp" && /venv/bin/python "$out/seed${K}_demo.py" >/dev/null 2>&1 ); echo "demo with change: exit=$?"
for p in $CHECKS; do
  /verif/run.py check "$p" --quick --repo "$tmp" 2>&1 | grep -E "^(VIOLATION|OK|KNOWN|MACHINERY|  clause)" | head -4 | cut -c1-220
  echo "  -> $p exit=${PIPESTATUS[0]}"
done
rm -rf "$tmp"
