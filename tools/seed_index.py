#!/usr/bin/env python3
"""Writes /verif/seeded/INDEX.md from the meta.json files."""
import glob, json, os
HERE = os.path.dirname(os.path.dirname(os.path.abspath(__file__)))
rows = []
for d in sorted(glob.glob(os.path.join(HERE, "seeded", "C*-*"))):
    m = json.load(open(os.path.join(d, "meta.json")))
    rows.append((os.path.basename(d), m["breaks_property"], m.get("summary", ""), m["needs_to_manifest"],
                 ", ".join(m.get("detected_by", []))))
with open(os.path.join(HERE, "seeded", "INDEX.md"), "w") as f:
    f.write("# Seeded changes (sub-agent written, confirmed with tools/vet_seed.sh)\n\n")
    f.write("%d changes; each compiles, passes the 57 tests, and fails its own demo only with the change applied.\n\n" % len(rows))
    f.write("| id | breaks | what was changed | needs in order to manifest | detected by (quick) |\n|---|---|---|---|---|\n")
    for r in rows:
        f.write("| %s | %s | %s | %s | %s |\n" % tuple(x.replace("|", "/") for x in r))
print(len(rows), "seeds indexed")
