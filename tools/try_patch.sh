#!/bin/bash
# usage: try_patch.sh <patch.diff> <prop> [<prop> ...]
# Applies a patch to a scratch copy of /repo (outside /repo and /verif), runs the
# quick checks of the given properties against the copy, removes the copy.
set -u
patch=$(readlink -f "$1"); shift
tmp=$(mktemp -d /tmp/trypatch.XXXXXX)
cp -r /repo/. "$tmp/"
if ! git -C "$tmp" apply "$patch"; then echo "PATCH DOES NOT APPLY"; rm -rf "$tmp"; exit 3; fi
( cd "$tmp" && /venv/bin/python -m pytest -q -p no:cacheprovider -x 2>&1 | tail -1 )
for p in "$@"; do
  /verif/run.py check "$p" --quick --repo "$tmp" 2>&1 | grep -E "^(VIOLATION|OK|KNOWN|MACHINERY|  clause)" | head -6
  echo "  -> $p exit=${PIPESTATUS[0]}"
done
rm -rf "$tmp"
