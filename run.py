#!/venv/bin/python
"""Entry point of the verification machinery.

  run.py check <ID> [--quick|--thorough] [--repo /repo]
  run.py replay <file> [--repo /repo]

exit 0: the property held on everything explored (KNOWN-FINDING lines possible)
exit 1: VIOLATION property=<ID> replay=<path>
exit 2: the machinery itself failed (never a verdict)
"""
import argparse
import importlib
import json
import os
import sys
import traceback

HERE = os.path.dirname(os.path.abspath(__file__))
sys.path.insert(0, HERE)
sys.dont_write_bytecode = True

from checks import common  # noqa: E402

REGISTRY = {
    "C01": "solver_props", "C02": "solver_props", "C03": "solver_props", "C04": "solver_props",
    "C05": "solver_props", "C06": "solver_props", "C10": "solver_props", "C13": "solver_props",
    "C14": "solver_props",
    "C07": "c07_revdfs", "C08": "c08_roborta", "C09": "c09_malformed", "C11": "c11_genfile",
    "C12": "c12_batch", "C15": "c15_boards", "C16": "c16_report", "C17": "c17_names",
}


def main():
    ap = argparse.ArgumentParser()
    sub = ap.add_subparsers(dest="cmd", required=True)
    c = sub.add_parser("check")
    c.add_argument("prop")
    c.add_argument("--quick", action="store_true")
    c.add_argument("--thorough", action="store_true")
    c.add_argument("--repo", default="/repo")
    t = sub.add_parser("selftest")
    t.add_argument("--mutants", action="store_true")
    t.add_argument("--only", default=None, help="regex over mutant paths")
    t.add_argument("--jobs", type=int, default=1, help="mutants checked concurrently")
    t.add_argument("--repo", default="/repo")
    x = sub.add_parser("extra")
    x.add_argument("what", choices=["vi", "suite", "vir"])
    x.add_argument("--repo", default="/repo")
    r = sub.add_parser("replay")
    r.add_argument("file")
    r.add_argument("--repo", default="/repo")
    args = ap.parse_args()
    seed = int(os.environ.get("VERIF_SEED", "1"))
    try:
        if args.cmd == "check":
            tier = "thorough" if args.thorough else ("quick" if args.quick else
                                                     os.environ.get("VERIF_TIER", "quick"))
            mod = importlib.import_module("checks." + REGISTRY[args.prop])
            res = mod.run(args.prop, tier, seed, os.path.abspath(args.repo))
            return res.finish()
        if args.cmd == "selftest":
            from checks import selftest
            args.repo = os.path.abspath(args.repo)
            return selftest.run(args)
        if args.cmd == "extra":
            mod = importlib.import_module("checks.extra_" + args.what)
            args.repo = os.path.abspath(args.repo)
            return mod.run(args)
        if args.cmd == "replay":
            with open(args.file) as f:
                rep = json.load(f)
            mod = importlib.import_module("checks." + REGISTRY[rep["property"]])
            return mod.replay(rep, os.path.abspath(args.repo))
    except common.MachineryError as e:
        print("MACHINERY-ERROR: %s" % e, file=sys.stderr)
        return 2
    except Exception:
        traceback.print_exc()
        return 2


if __name__ == "__main__":
    sys.exit(main())
