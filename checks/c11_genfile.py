"""C11: see c08_roborta (one flow; this check counts the C11 clauses and adds
runs of the generator's own command line on accepted parameter sets)."""
from .c08_roborta import run, replay  # noqa: F401
