"""C17: see c15_boards (one flow; this check runs the whole-percent sweep and counts C17 clauses)."""
from .c15_boards import run, replay  # noqa: F401
