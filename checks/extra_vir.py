"""run.py extra vir: algorithm-level conformance of the reward iteration (module VIR).

Not a verdict on a listed property (C02/C05/C14 speak about results, not about sweeps).
Solver sessions are recorded with the RewardSweep hook on; Trace_Solver's action
TraceRewardSweep replays every recorded sweep: each of the three quantities of every state
must be the update of that state applied to the in-place mixed vector, the loop may only go on
while the last change exceeded the threshold and may only stop when it did not, and what is
returned is the vector of the last sweep."""
import os
import shutil
import tempfile

from vlib import solver_flow as sf

FAMILIES = (("stop", 300), ("dead", 150), ("ties", 120), ("diag", 80), ("samerow", 60),
            ("slowrew", 72), ("loopdiag", 72), ("nonabs", 80), ("zerow", 36), ("slow", 24))


def run(args):
    seed = int(os.environ.get("VERIF_SEED", "1"))
    work = tempfile.mkdtemp(prefix="verif_vir_")
    rc = 0
    try:
        gens = []
        for i, (fam, k) in enumerate(FAMILIES):
            gens += sf.generate(fam, k, seed * 53 + i, work)
        sessions = []
        for d in gens:
            if not d.get("solvemode", d.get("stopping")):
                continue
            script = [{"op": "call", "d": 1, "prune": pr, "mode": "solve", "obj": "new", "sweeps": True}
                      for pr in ((True, False) if len(sessions) % 2 == 0 else (False, True))]
            sessions.append({"tid": len(sessions) + 1, "fam": d["fam"], "exact": True, "descs": [d["g"]],
                             "script": script})
        verdicts, st = sf.record_validate(sessions, args.repo, work, budget=20.0, long_budget=300.0)
        sweeps = bad = 0
        kinds = {}
        for s in sessions:
            v = verdicts[s["tid"]]
            sweeps += sum(1 for e in s["events"] if e["e"] == "RewardSweep")
            mine = [c for c in v["fails"] if c.startswith("VIR.") or c.startswith("Protocol.") or c.startswith("Machinery.")]
            if mine:
                bad += 1
                for c in mine:
                    kinds[c.split(" ")[0]] = kinds.get(c.split(" ")[0], 0) + 1
                if bad <= 5:
                    print("  session %s (%s): %s" % (s["tid"], s["fam"], mine[:4]))
                    if bad == 1:
                        import json
                        print("   game:", json.dumps(s["descs"][0])[:600])
        print("Trace_Solver/VIR: %d sessions, %d reward sweeps replayed, %d sessions with algorithm-level deviations %s"
              % (len(sessions), sweeps, bad, kinds if kinds else ""))
        if sweeps == 0:
            print("no sweep recorded: the RewardSweep hook is not bound")
            return 2
        rc = 1 if bad else 0
    finally:
        shutil.rmtree(work, ignore_errors=True)
    print("EXTRA vir %s" % ("OK" if rc == 0 else "DEVIATIONS"))
    return rc
