"""C08 (generated games are bisimilar to the Roborta rules) and C11 (every
accepted parameter set yields a loadable, proper three-game file).

TLC generates boards and probability triples (Gen_Boards), the harness lets
the repository's generator write each board's file in a scratch directory and
reads it back with the solver's reader; TLC (Trace_Roborta) builds the game the
RULES define (module Roborta) and decides probabilistic bisimilarity by
partition refinement (module Bisim), and checks the C11 shape clauses."""
import json
import os
import shutil
import tempfile
import time

from vlib import tlc, pool, obs
from . import common

PLAN = {
    ("C08", "quick"): [("exh2", 0), ("samp", 160), ("mid", 12)],
    ("C08", "thorough"): [("exh2", 0), ("exh3", 0), ("samp", 6000), ("mid", 300)],
    ("C11", "quick"): [("exh2", 0), ("samp", 150), ("mid", 30)],
    ("C11", "thorough"): [("exh3", 0), ("samp", 4000), ("mid", 600)],
    # C17 through the manual entry point (every session via create_sg_from_board)
    ("C17", "quick"): [("samp", 120), ("mid", 20)],
    ("C17", "thorough"): [("exh2", 0), ("samp", 3000), ("mid", 300)],
}


def gen(family, k, seed, work):
    out = os.path.join(work, "boards_%s.json" % family)
    r = tlc.run("Gen_Boards", env={"GEN_FAMILY": family, "GEN_K": k, "GEN_OUT": out},
                args=["-seed", str(seed)], timeout=7200, heap="8g")
    if not r.ok:
        raise common.MachineryError("Gen_Boards %s failed: %s\n%s" % (family, r.errors, r.out[-1500:]))
    with open(out) as f:
        return json.load(f)


def record(sessions, repo, solve):
    jobs = [{"kind": "roborta", "board": s["board"], "probs": s["probs"], "via": s.get("via", "write"),
             "cli": s.get("cli"), "loadonly": s.get("loadonly", False),
             "twice": s["tid"] % 4 in (2, 3), "other_first": s["tid"] % 8 == 1,
             "solve": solve, "budget": 300.0} for s in sessions]
    results = pool.run_jobs(jobs, repo, budget=300.0)
    for s, (events, status) in zip(sessions, results):
        if status != "ok" or not events:
            raise common.MachineryError("harness failure in roborta session %s: %s" % (s["tid"], status))
        s.update({k: events[0][k] for k in ("keys", "loaderr", "games", "exact", "raw", "outcomes", "created",
                                             "depiction")})
        if "board" in events[0]:          # command-line sessions: the board the seed defines
            s["board"] = events[0]["board"]
        s.setdefault("via", "write")
        s.setdefault("loadonly", False)
        s["board"].setdefault("rden", 1)


def validate(sessions, work, want, res):
    # heavier sessions first so that shards are balanced
    order = sorted(sessions, key=lambda s: -s["board"]["L"] * s["board"]["W"])
    nsh = max(1, min(14, len(order) // 12))
    jobs = []
    for i in range(nsh):
        path = os.path.join(work, "rob_%d.json" % i)
        recs = [{k: s[k] for k in ("tid", "board", "probs", "keys", "loaderr", "games", "exact", "raw", "outcomes",
                                   "created", "via", "loadonly", "depiction")}
                for s in order[i::nsh]]
        obs.check_ints(recs)
        with open(path, "w") as f:
            json.dump(recs, f)
        jobs.append(dict(module="Trace_Roborta", env={"TRACE_FILE": path, "WANT": want}, workers=1,
                         timeout=6 * 3600, heap="4g", stack="256m"))
    rs = tlc.run_parallel(jobs, nproc=14)
    verdicts = {}
    for r in rs:
        if not r.ok:
            raise common.MachineryError("TLC failed: %s\n%s" % (r.errors, r.out[-2500:]))
        res.coverage["states"] += r.distinct
        res.coverage["transitions"] += r.generated
        for v in r.printed:
            if isinstance(v, dict) and "tid" in v:
                verdicts[v["tid"]] = v
    return verdicts


EXTREME = [4000, 4900, 997000, 995100, 125000, 333333, 100000, 500000, 20000]


def cli_sessions(seed, n):
    """Files written by the generator's command line (main): seeds, shapes and probabilities that are
    accepted but not whole percents, down to 0.004 and up to 0.997.  Not solved (nosolve): such
    probabilities make the iterations astronomically long, which is not what these sessions are for."""
    import random
    rng = random.Random(seed * 7919 + 5)
    out = []
    for i in range(n):
        L, W = rng.choice([(1, 1), (1, 2), (2, 1), (2, 2), (1, 3), (3, 1), (2, 3), (3, 2), (1, 4), (4, 1)])
        out.append({"board": {"L": L, "W": W, "moves": [], "rewards": [], "loose": [], "rden": 1},
                    "probs": {"tb": rng.choice(EXTREME), "rb": rng.choice(EXTREME), "lb": rng.choice(EXTREME)},
                    "cli": {"seed": rng.randrange(0, 500), "L": L, "W": W, "maxr": rng.choice([1, 2, 6, 30]),
                            "lt": rng.choice([4000, 300000, 500000, 996000, 125000]), "fd": rng.random() < 0.5},
                    "via": "cli", "src": "cli", "nosolve": True})
    return out


def big_load_sessions(seed, tier):
    """Boards beyond 400 tiles: only that the written file loads into the three games (the
    clauses on the games themselves are size-independent and exercised on the small boards)."""
    import random
    rng = random.Random(seed * 31 + 1)
    shapes = [(21, 20), (134, 3), (1, 401)] + ([(60, 40), (500, 2)] if tier == "thorough" else [])
    out = []
    for L, W in shapes:
        out.append({"board": {"L": L, "W": W, "rden": 1,
                              "moves": [[rng.randrange(0, 4) for _ in range(W)] for _ in range(L)],
                              "rewards": [[rng.randrange(0, 7) for _ in range(W)] for _ in range(L)],
                              "loose": [[rng.randrange(0, 2) for _ in range(W)] for _ in range(L)]},
                    "probs": {"tb": 100000, "rb": 100000, "lb": 100000}, "via": "write", "loadonly": True,
                    "src": "bigload", "nosolve": True})
    return out


def solve_sessions(sessions, repo, work, res, long_budget=240.0):
    """C11, last clause: every emitted game is solved or reported as having no solution.
    The games go through the solver flow (hooks, Trace_Solver) in the batch runner's order:
    pruned first, unpruned only if the pruned solve did not fail."""
    from vlib import solver_flow as sf
    known_open = common.load_known()["open"]
    ss = []
    for s in sessions:
        if s["keys"] != ["game_a", "game_b", "game_c"] or s.get("nosolve"):
            continue
        for name, g, raw in zip(s["keys"], s["games"], s["raw"]):
            if not raw["valid"] or g["n"] == 0:
                continue
            ss.append({"tid": len(ss) + 1, "fam": "board", "exact": False, "descs": [g],
                       "script": [{"op": "call", "d": 1, "prune": True, "mode": "solve", "obj": "new"},
                                  {"op": "call", "d": 1, "prune": False, "mode": "solve", "obj": "new",
                                   "unless_prev_raised": True}],
                       "board": s["board"], "probs": s["probs"], "game": name, "budget": 8.0})
    verdicts, st = sf.record_validate(ss, repo, work, budget=8.0, long_budget=long_budget)
    res.notes["C11.rerun_with_long_budget"] = st["rerun_with_long_budget"]
    res.coverage["states"] += st["distinct"]
    res.coverage["transitions"] += st["generated"]
    res.notes["C11.solver_sessions"] = len(ss)
    for s in ss:
        v = verdicts[s["tid"]]
        for n in v["notes"]:
            if n.startswith("C06."):
                res.notes["C11/" + n] = res.notes.get("C11/" + n, 0) + 1
        bad = sorted(c for c in v["fails"] if c.startswith("C06.") or c.startswith("Protocol."))
        if bad:
            res.add_violation("C11.SolvedOrNoSolution " + "; ".join(bad) + " game=" + s["game"],
                              {"kind": "roborta", "property": "C11", "board": s["board"], "probs": s["probs"],
                               "via": "write", "fails": bad})
        elif "C06.divergedOutsideDomain" in v["notes"]:
            ko = [k for k in known_open if k["id"] == "K3"]
            if ko:
                res.add_known("K3", ko[0]["what"])
            else:
                res.add_violation("C11.SolvedOrNoSolution timeout (conditioned game not stopping) game=" + s["game"],
                                  {"kind": "roborta", "property": "C11", "board": s["board"], "probs": s["probs"],
                                   "via": "write", "fails": ["timeout"]})


def run(prop, tier, seed, repo):
    res = common.Result(prop, tier, seed)
    work = tempfile.mkdtemp(prefix="verif_%s_" % prop)
    try:
        sessions = []
        for fam, k in PLAN[(prop, tier)]:
            for c in gen(fam, k, seed * 100 + 8, work):
                sessions.append({"board": c["board"], "probs": c["probs"], "src": fam})
        if prop in ("C08", "C11"):
            sessions += cli_sessions(seed, 24 if tier == "quick" else 600)
        if prop == "C11":
            sessions += big_load_sessions(seed, tier)
        for i, s in enumerate(sessions):
            s["tid"] = i + 1
            # every second board goes through the manual entry point (its own argument order)
            s.setdefault("via", "manual" if (i % 2 == 1 or prop == "C17") else "write")
        t1 = time.time()
        record(sessions, repo, solve=False)
        t2 = time.time()
        verdicts = validate(sessions, work, prop, res)
        if prop == "C11":
            solve_sessions(sessions, repo, work, res, 240.0 if tier == "quick" else 1800.0)
            # accepted parameter sets through the generator's own command line
            from . import c15_boards
            gs, nev, _ = c15_boards.run_flow("C11", tier, seed, repo, res, work, ("C11.",))
            res.notes["C11.command_line_events"] = nev
        distinct = set()
        for s in sessions:
            v = verdicts.get(s["tid"])
            if v is None:
                raise common.MachineryError("no verdict for session %s" % s["tid"])
            for n in v["notes"]:
                res.notes[n] = res.notes.get(n, 0) + 1
            for c in v["fails"]:
                if c.startswith("X."):
                    # growth beyond the listed properties: reported in the evidence, never a verdict
                    res.notes["beyond:" + c] = res.notes.get("beyond:" + c, 0) + 1
            if s["board"]["L"] * s["board"]["W"] >= 2:
                distinct.add(json.dumps([s["board"], s["probs"]], sort_keys=True))
            bad = sorted(c for c in v["fails"] if c.startswith(prop + "."))
            if bad:
                res.add_violation("; ".join(bad) + " board=%dx%d" % (s["board"]["L"], s["board"]["W"]),
                                  {"kind": "roborta", "property": prop, "board": s["board"], "probs": s["probs"],
                                   "via": s["via"], "fails": bad})
        cov = res.coverage
        cov["evaluations"] = len(sessions)
        cov["distinct_nontrivial"] = len(distinct)
        cov["traces_validated_against_impl"] = len(sessions)
        cov["rule"] = ("boards generated by TLC: all boards with <= 2 tiles (<= 3 in thorough; every arrow/loose "
                       "layout, two reward layouts), sampled boards with <= 4 tiles and with 5..12 tiles, each with a "
                       "sampled probability triple from {0.01, 0.1, 0.29, 0.5, 0.9}^3; three games per board; "
                       "non-trivial = at least two tiles; distinct = distinct (board, probabilities)")
        s0 = sessions[len(sessions) // 2]
        cov["samples"] = [{"board": s0["board"], "probs": s0["probs"], "keys": s0["keys"],
                           "n_states": [g["n"] for g in s0["games"]], "outcomes": s0["outcomes"]}]
        res.notes.update({"time.record_s": round(t2 - t1, 1), "time.validate_s": round(time.time() - t2, 1)})
        res.assumptions += ["a failed robot move re-lands the robot on its own tile through that tile's break "
                            "check (reading of C08 where it is silent, DESIGN section 7)",
                            "probabilities are compared as integers per million; exactness of that projection "
                            "(1e-12) is itself a clause (C08.ProbExact)"]
    finally:
        shutil.rmtree(work, ignore_errors=True)
    return res


def replay(rep, repo):
    s = {"tid": 1, "board": rep["board"], "probs": rep["probs"], "via": rep.get("via", "write")}
    record([s], repo, solve=True)
    print("board:", rep["board"], "probs:", rep["probs"])
    print("keys:", s["keys"], "loaderr:", s["loaderr"], "n:", [g["n"] for g in s["games"]])
    print("failing clauses when recorded:", rep["fails"])
    return 1
