"""C15 (random boards: reproducible, in range, parameters honoured, bad parameter
sets refused) and C17 (file names identify their parameters).

TLC generates the parameter sets (every boundary of the documented ranges, one
at a time and in sampled combinations), call histories p, q, p and the
whole-percent sweep (module Gen_Params); the harness calls check_input /
gen_rnd_board and runs the generator's command line in scratch directories;
TLC replays the events through the machine of module Generator
(Trace_Generator) and judges them."""
import json
import os
import shutil
import tempfile
import time

from vlib import tlc, pool, obs
from . import common

PLAN = {
    ("C15", "quick"): [("grid", 2500), ("main", 90), ("hist", 60), ("freq", 24)],
    ("C15", "thorough"): [("grid", 60000), ("main", 1500), ("hist", 1500), ("freq", 300)],
    ("C17", "quick"): [("pct", 0), ("main", 60)],
    ("C17", "thorough"): [("pct", 0), ("main", 2000)],
    ("C11", "quick"): [("main", 40)],
    ("C11", "thorough"): [("main", 600)],
}


def gen(family, k, seed, work):
    out = os.path.join(work, "params_%s.json" % family)
    r = tlc.run("Gen_Params", env={"GEN_FAMILY": family, "GEN_K": k, "GEN_OUT": out},
                args=["-seed", str(seed)], timeout=7200, heap="8g")
    if not r.ok:
        raise common.MachineryError("Gen_Params %s failed: %s\n%s" % (family, r.errors, r.out[-1500:]))
    with open(out) as f:
        return json.load(f)


def sessions_for(family, cases):
    ss = []
    if family in ("grid", "gridall"):
        for i in range(0, len(cases), 40):
            ss.append({"fam": family, "ops": [{"e": "Check", "p": p} for p in cases[i:i + 40]]})
    elif family == "main":
        for i in range(0, len(cases), 6):
            ops = []
            for p in cases[i:i + 6]:
                ops.append({"e": "Main", "p": p})
                ops.append({"e": "Main", "p": p, "again": True})      # re-run in the same directory
                ops.append({"e": "Main", "p": p, "inproc": True})     # and from a long-lived process
                ops.append({"e": "Check", "p": p})
            ss.append({"fam": family, "ops": ops})
    elif family == "hist":
        for h in cases:
            ss.append({"fam": family, "ops": [{"e": "GenCall", "p": p} for p in h]})
    elif family == "pct":
        # one session: file-name collisions are a property of the whole sweep
        ss.append({"fam": family, "ops": [{"e": "Main", "p": p} for p in cases]})
        # and the same sweep driven from ONE long-lived process (main() called repeatedly)
        ss.append({"fam": family, "ops": [{"e": "Main", "p": p, "inproc": True} for p in cases]})
        # and in ONE inputs/ directory that keeps every file of the sweep (a file on disk must never
        # stand in for another parameter set), in both directions of the sweep
        ss.append({"fam": family, "ops": [{"e": "Main", "p": p, "keep": True} for p in cases]})
        ss.append({"fam": family, "ops": [{"e": "Main", "p": p, "keep": True} for p in reversed(cases)]})
    elif family == "freq":
        for p in cases:
            ss.append({"fam": family, "ops": [{"e": "Freq", "p": p}]})
    return ss


def run_flow(prop, tier, seed, repo, res, work, prefixes):
    sessions = []
    for fam, k in PLAN[(prop, tier)]:
        sessions += sessions_for(fam, gen(fam, k, seed * 100 + 15, work))
    for i, s in enumerate(sessions):
        s["tid"] = i + 1
    t1 = time.time()
    jobs = [{"kind": "generator", "ops": s["ops"], "budget": 900.0} for s in sessions]
    results = pool.run_jobs(jobs, repo, budget=900.0)
    for s, (events, status) in zip(sessions, results):
        if status != "ok" or len(events) != len(s["ops"]):
            raise common.MachineryError("harness failure in generator session %s: %s" % (s["tid"], status))
        s["events"] = events
    t2 = time.time()
    order = sorted(sessions, key=lambda s: -len(s["ops"]))
    nsh = max(1, min(14, len(order) // 4))
    jobs = []
    for i in range(nsh):
        path = os.path.join(work, "gen_%s_%d.json" % (prop, i))
        recs = [{"tid": s["tid"], "events": s["events"]} for s in order[i::nsh]]
        obs.check_ints(recs)
        with open(path, "w") as f:
            json.dump(recs, f)
        jobs.append(dict(module="Trace_Generator", env={"TRACE_FILE": path}, workers=1, timeout=6 * 3600, heap="4g"))
    rs = tlc.run_parallel(jobs, nproc=14)
    verdicts = {}
    for r in rs:
        if not r.ok:
            raise common.MachineryError("TLC failed: %s\n%s" % (r.errors, r.out[-2500:]))
        res.coverage["states"] += r.distinct
        res.coverage["transitions"] += r.generated
        for v in r.printed:
            if isinstance(v, dict) and "tid" in v:
                verdicts[v["tid"]] = v
    distinct = set()
    nev = 0
    for s in sessions:
        v = verdicts.get(s["tid"])
        if v is None:
            raise common.MachineryError("no verdict for session %s" % s["tid"])
        for n in v["notes"]:
            res.notes[n] = res.notes.get(n, 0) + 1
        nev += len(s["ops"])
        for op in s["ops"]:
            distinct.add(json.dumps([op["e"], op["p"]], sort_keys=True))
        bad = sorted(c for c in v["fails"] if any(c.startswith(px) for px in prefixes))
        if bad:
            res.add_violation("; ".join(bad)[:600], {"kind": "generator", "property": prop, "ops": s["ops"][:60],
                                                      "fails": bad[:40]})
    res.notes.update({"time.record_s": round(t2 - t1, 1), "time.validate_s": round(time.time() - t2, 1)})
    return sessions, nev, distinct


def run(prop, tier, seed, repo):
    res = common.Result(prop, tier, seed)
    work = tempfile.mkdtemp(prefix="verif_%s_" % prop)
    try:
        sessions, nev, distinct = run_flow(prop, tier, seed, repo, res, work, (prop + ".",))
        cov = res.coverage
        cov["evaluations"] = nev
        cov["distinct_nontrivial"] = len(distinct)
        cov["traces_validated_against_impl"] = len(sessions)
        cov["rule"] = ("events = calls of check_input / gen_rnd_board and runs of the generator's command line on "
                       "TLC-generated parameter sets: every boundary value of every documented range one at a time "
                       "(seed -1/0/1, sizes and max reward -1/0/1/2/64/2000, probabilities -0.1, 0, 1e-6, 1/2, "
                       "1-1e-6, 1, 1.1, NaN), sampled combinations, call histories p,q,p,p',p, the k/100 sweep of "
                       "each probability field, 30x30 boards for the loose-tile frequency (6 sigma); every event is "
                       "non-trivial; distinct = distinct (event kind, parameter set)")
        s0 = sessions[len(sessions) // 2]
        cov["samples"] = [{"ops": s0["ops"][:2], "events": [{k: v for k, v in e.items() if k not in ("before", "after")}
                                                             for e in s0["events"][:2]]}]
        res.assumptions += ["the pseudo-random stream is an uninterpreted function: reproducibility is checked as "
                            "'same parameters => same board', frequencies statistically at 6 sigma with fixed seeds",
                            "for command-line runs the board is read from the depiction comment the generator "
                            "writes at the head of the file"]
    finally:
        shutil.rmtree(work, ignore_errors=True)
    return res


def replay(rep, repo):
    (events, status), = pool.run_jobs([{"kind": "generator", "ops": rep["ops"]}], repo, nproc=1, budget=900.0)
    for e in events:
        print({k: v for k, v in e.items() if k not in ("before", "after", "board")})
    print("failing clauses when recorded:", rep["fails"])
    return 1
