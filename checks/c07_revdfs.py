"""C07: backward search and reversed-transition table (reverse_dfs.py).

TLC generates the small graphs (exhaustively / sampled), the harness adds the
large ones (chains, diamonds, a tall generated board, the committed inputs);
every call of the real functions is judged by Trace_RevDFS against module
ReverseDFS: exact fixed point on small graphs, O(edges) certificate check on
large ones."""
import collections
import glob
import json
import os
import random
import shutil
import tempfile
import time

from vlib import tlc, pool, obs, solver_flow as sf
from . import common

QUICK = [("exh2", 0), ("samp3", 1500), ("samp4", 1500), ("rand8", 1200)]
THOROUGH = [("exh2", 0), ("exh3", 0), ("samp4", 40000), ("rand8", 40000)]


def gen(family, k, seed, work):
    out = os.path.join(work, "graphs_%s.json" % family)
    r = tlc.run("Gen_Graphs", env={"GEN_FAMILY": family, "GEN_K": k, "GEN_OUT": out},
                args=["-seed", str(seed)], timeout=3600, heap="6g")
    if not r.ok:
        raise common.MachineryError("Gen_Graphs %s failed: %s\n%s" % (family, r.errors, r.out[-1500:]))
    with open(out) as f:
        return json.load(f)


def ranks(tl, finals):
    """Certificate hint: BFS distance to the final set over reversed edges (-1: none)."""
    n = len(tl)
    pred = [[] for _ in range(n + 1)]
    for u, row in enumerate(tl, start=1):
        for v in row:
            pred[v].append(u)
    rank = [-1] * (n + 1)
    dq = collections.deque()
    for f in set(finals):
        rank[f] = 0
        dq.append(f)
    while dq:
        v = dq.popleft()
        for u in pred[v]:
            if rank[u] < 0:
                rank[u] = rank[v] + 1
                dq.append(u)
    return rank[1:]


def big_cases(tier, repo, rng):
    cases = []
    sizes = [1200, 3000] if tier == "quick" else [1200, 3000, 5000, 8000]
    for n in sizes:
        cases.append(("chain%d" % n, [[i + 1] for i in range(1, n)] + [[]], [n]))           # i -> i+1, final last
        cases.append(("backchain%d" % n, [[]] + [[i - 1] for i in range(2, n + 1)], [1]))     # i -> i-1, final first
    # depths just below the interpreter's recursion limit (whatever the depth of the caller's own stack)
    import sys as _sys
    lim = _sys.getrecursionlimit()
    for n in ([lim - 40, lim - 20, lim - 12, lim - 8, lim - 5, lim - 3, lim - 2, lim - 1, lim, lim + 1]
              if tier == "quick" else list(range(lim - 60, lim + 3))):
        cases.append(("chain%d" % n, [[i + 1] for i in range(1, n)] + [[]], [n]))
    # diamonds: a state reached backwards through two different predecessors
    for w in (2, 5, 40):
        tl = [[2 + i for i in range(w)]] + [[w + 2] for _ in range(w)] + [[w + 3], []]
        cases.append(("diamond%d" % w, tl, [w + 3]))
    cases.append(("paper", [[3], [1, 3], []], [3]))
    # sparse: a handful of scattered, high-numbered states reach the final state of a big,
    # otherwise edgeless graph (the result must still come back in ascending order)
    for n, srcs, fin in ((300, [256, 129, 64, 3, 17], 200), (2000, [512, 33, 1024, 5, 7, 1999], 100),
                         (5000, [4097, 8, 4999, 2048, 65, 1], 3000)):
        tl = [[] for _ in range(n)]
        for k, u in enumerate(srcs):
            tl[u - 1] = [fin] if k % 2 == 0 else [srcs[k - 1]]
        cases.append(("sparse%d" % n, tl, [fin]))
    cases.append(("sparse9", [[], [9], [], [], [], [], [], [2], []], [9]))                                           # 1->3, 2->1, 2->3
    for n in ((60, 200) if tier == "quick" else (60, 200, 600, 1500)):
        tl = [[rng.randrange(1, n + 1) for _ in range(rng.randrange(0, 4))] for _ in range(n)]
        fin = [rng.randrange(1, n + 1) for _ in range(rng.randrange(1, 4))]
        cases.append(("rand%d" % n, tl, fin))
    # the repository's own inputs
    files = sorted(glob.glob(os.path.join(repo, "inputs", "*.py")))
    if tier == "quick":
        files = [f for f in files if os.path.getsize(f) < 400000][:12]
    for path in files:
        try:
            with open(path) as f:
                d = eval(f.read())
        except Exception:
            continue
        for name, g in d.items():
            try:
                tl = [[t + 1 for _, t in row] for row in g["transition_list"]]
                fin = [x + 1 for x in g["final_states"]]
            except Exception:
                continue
            cases.append((os.path.basename(path) + ":" + name, tl, fin))
    return cases


def run(prop, tier, seed, repo):
    res = common.Result(prop, tier, seed)
    work = tempfile.mkdtemp(prefix="verif_C07_")
    rng = random.Random(seed)
    try:
        sessions = []
        for fam, k in (QUICK if tier == "quick" else THOROUGH):
            for c in gen(fam, k, seed * 100 + 7, work):
                sessions.append({"src": fam, "tl": c["tl"], "finals": c["finals"], "big": False,
                                 "rank": []})
        for name, tl, fin in big_cases(tier, repo, rng):
            sessions.append({"src": name, "tl": tl, "finals": fin, "big": len(tl) > 300,
                             "rank": ranks(tl, fin) if len(tl) > 300 else []})
        for i, s in enumerate(sessions):
            s["tid"] = i + 1
        t1 = time.time()
        # sampled small graphs are run in groups of three on ONE list object that the caller
        # edits in place between the calls (a history, not three independent inputs)
        groups = []
        seqable = [s for s in sessions if s["src"] in ("samp3", "samp4", "rand8")]
        alone = [s for s in sessions if s["src"] not in ("samp3", "samp4", "rand8")]
        for i in range(0, len(seqable), 3):
            groups.append(seqable[i:i + 3])
        groups += [[s] for s in alone]
        jobs = [{"kind": "revdfs", "steps": [{"tl": s["tl"], "finals": s["finals"]} for s in grp],
                 "budget": 120.0} for grp in groups]
        results = pool.run_jobs(jobs, repo, budget=120.0)
        res.notes["C07.in_place_edit_histories"] = sum(1 for g_ in groups if len(g_) > 1)
        for grp, (events, status) in zip(groups, results):
            if status != "timeout" and (status != "ok" or len(events) != len(grp)):
                raise common.MachineryError("harness failure: %s" % status)
            for j, s in enumerate(grp):
                if j < len(events):
                    s["table"] = events[j]["table"]
                    s["ret"] = events[j]["ret"]
                else:
                    s["table"] = {"ok": False, "etype": "Timeout", "keys": [], "vals": []}
                    s["ret"] = {"ok": False, "etype": "Timeout", "val": []}
        t2 = time.time()
        # shards: small sessions spread evenly, each big one alone-ish
        small = [s for s in sessions if not s["big"]]
        bigs = [s for s in sessions if s["big"]]
        nsh = max(1, min(12, len(small) // 400))
        shards = [small[i::nsh] for i in range(nsh)] + [[b] for b in bigs]
        jobs = []
        for i, sh in enumerate(shards):
            path = os.path.join(work, "rev_%d.json" % i)
            recs = [{k: s[k] for k in ("tid", "tl", "finals", "table", "ret", "big", "rank")} for s in sh]
            obs.check_ints(recs)
            with open(path, "w") as f:
                json.dump(recs, f)
            jobs.append(dict(module="Trace_RevDFS", env={"TRACE_FILE": path}, workers=1, timeout=7200,
                             heap="4g", stack="512m"))
        rs = tlc.run_parallel(jobs, nproc=14)
        verdicts = {}
        for r in rs:
            if not r.ok:
                raise common.MachineryError("TLC failed: %s\n%s" % (r.errors, r.out[-2500:]))
            res.coverage["states"] += r.distinct
            res.coverage["transitions"] += r.generated
            for v in r.printed:
                if isinstance(v, dict) and "tid" in v:
                    verdicts[v["tid"]] = v
        t3 = time.time()
        # the search as an algorithm (module DFS): the current one is exact on every graph
        # with 3 states, the pre-fix one is a counter-model
        r1 = tlc.run("DFS", cfg="MC_DFS", workers=8, gc="parallel", heap="6g", timeout=3600)
        if not r1.ok:
            res.add_violation("MC_DFS: " + "; ".join(r1.errors)[:300],
                              {"kind": "mc", "property": "C07", "cfg": "MC_DFS", "output": r1.out[-3000:]})
        res.coverage["states"] += r1.distinct
        res.coverage["transitions"] += r1.generated
        res.notes["MC_DFS.distinct_states"] = r1.distinct
        r2 = tlc.run("DFS", cfg="MC_DFS_Old", workers=8, gc="parallel", heap="6g", timeout=3600)
        if not any("ExactOnce is violated" in e for e in r2.errors):
            raise common.MachineryError("MC_DFS_Old no longer yields its counterexample (vacuity)")
        res.notes["MC_DFS_Old.counterexample_found"] = True
        nontrivial = set()
        for s in sessions:
            v = verdicts.get(s["tid"])
            if v is None:
                raise common.MachineryError("no verdict for session %s (%s)" % (s["tid"], s["src"]))
            for n in v["notes"]:
                res.notes[n] = res.notes.get(n, 0) + 1
            if "C07.nonempty" in v["notes"]:
                nontrivial.add(json.dumps([s["tl"], s["finals"]])[:4000])
            bad = sorted(c for c in v["fails"] if c.startswith("C07."))
            if bad:
                rep = {"kind": "revdfs", "property": "C07", "src": s["src"], "fails": bad}
                if len(s["tl"]) <= 400:
                    rep.update({"tl": s["tl"], "finals": s["finals"]})
                res.add_violation("; ".join(bad) + " [" + s["src"] + "]", rep)
        cov = res.coverage
        cov["evaluations"] = len(sessions)
        cov["distinct_nontrivial"] = len(nontrivial)
        cov["traces_validated_against_impl"] = len(sessions)
        cov["exhaustive"] = False
        cov["rule"] = ("graphs: TLC-enumerated (all graphs with 2 states, <=2 edges/state, all final sequences of "
                       "length <=3; in thorough also all with 3 states) and TLC-sampled (3, 4, 5-8 states), plus "
                       "harness-built chains up to thousands of states, diamonds, random graphs and the committed "
                       "inputs; non-trivial = the search result is non-empty; distinct = distinct (graph, finals)")
        big_names = [s["src"] for s in bigs]
        cov["samples"] = [{"tl": sessions[min(700, len(sessions) - 1)]["tl"],
                           "finals": sessions[min(700, len(sessions) - 1)]["finals"],
                           "ret": sessions[min(700, len(sessions) - 1)]["ret"]},
                          {"large graphs checked with the certificate clause": big_names[:40]}]
        res.notes.update({"time.record_s": round(t2 - t1, 1), "time.validate_s": round(t3 - t2, 1)})
        res.assumptions += ["large graphs (> 300 states) are judged with the O(edges) certificate clause "
                            "CertifiesExact; the rank hint comes from the harness but is verified by TLC",
                            "termination is observed with a 120 s budget per call"]
    finally:
        shutil.rmtree(work, ignore_errors=True)
    return res


def replay(rep, repo):
    print(json.dumps(rep)[:2000])
    if "tl" not in rep:
        print("large case: rerun the check")
        return 1
    s = {"tid": 1, "tl": rep["tl"], "finals": rep["finals"], "big": False, "rank": []}
    (events, status), = pool.run_jobs([{"kind": "revdfs", "tl": s["tl"], "finals": s["finals"]}], repo, nproc=1)
    print("observed:", events)
    return 1
