"""C16: see c12_batch (one flow serves both; this check counts the C16 clauses)."""
from .c12_batch import run, replay  # noqa: F401
