"""C01-C06, C10, C13, C14: the solver pipeline.

One flow serves all of them (DESIGN section 2): TLC generates game
descriptions and call scripts, the harness runs them on the real code and
records one event per pipeline phase, TLC (Trace_Solver) judges every event
with the named clauses of module Clauses.  A property's check counts the
clauses that carry its id."""
import hashlib
import json
import os
import random
import shutil
import tempfile

from vlib import solver_flow as sf, tlc
from . import common

PROPS = ("C01", "C02", "C03", "C04", "C05", "C06", "C10", "C13", "C14")

# which note marks a session as a non-trivial exercise of the property
NONTRIVIAL = {
    "C01": "C01.exact", "C04": "C01.exact", "C02": "C02.exact", "C03": "C03.multidead",
    "C05": "C05.decidedchoice", "C06": "C06.returned", "C10": "C10.repeat",
    "C13": "C13.compared", "C14": "C14.exact",
}

# (family, quick K, thorough K)
BATTERY = {
    "C01": [("rand", 500, 12000), ("stop", 300, 5000), ("dead", 150, 3000), ("ties", 80, 768),
            ("tiny", 60, 324), ("edit", 100, 2500), ("slow", 40, 108), ("zerow", 36, 36), ("degen", 75, 75), ("jump1", 72, 144), ("finaldeadend", 72, 72)],
    "C04": [("rand", 500, 12000), ("stop", 300, 5000), ("ties", 140, 768), ("dead", 100, 2000),
            ("tiny", 60, 324), ("samerow", 144, 144), ("gap5", 16, 16), ("degen", 75, 75), ("jump1", 72, 144), ("order3", 48, 48)],
    "C02": [("stop", 700, 16000), ("dead", 250, 4800), ("ties", 80, 768), ("tiny", 60, 324),
            ("bigrew", 36, 36), ("slow", 40, 108), ("slowrew", 48, 72), ("degen", 75, 75), ("minreachrank", 48, 48), ("zerow", 36, 36)],
    "C03": [("dead", 400, 8000), ("rand", 400, 8000), ("stop", 200, 4000), ("tiny", 80, 324),
            ("nonabs", 100, 504), ("zerow", 36, 36), ("degen", 75, 75), ("duplabel", 12, 12), ("finaldeadend", 72, 72), ("keycollide", 2, 2)],
    "C05": [("stop", 700, 16000), ("dead", 200, 4000), ("ties", 140, 768), ("nonabs", 120, 504),
            ("bigrew", 36, 36), ("diag", 80, 160), ("samerow", 144, 144), ("slowrew", 36, 72), ("gap5", 16, 16), ("degen", 75, 75), ("minreachrank", 48, 48), ("zerow", 36, 36), ("keycollide", 2, 2), ("order3", 48, 48)],
    "C06": [("stop", 600, 12000), ("dead", 300, 8000), ("rand", 200, 4000), ("tiny", 60, 324),
            ("edit", 120, 3000), ("nonabs", 100, 504), ("slow", 40, 108),
            ("zerow", 36, 36), ("degen", 75, 75), ("duplabel", 12, 12), ("finaldeadend", 72, 72)],
    "C14": [("stop", 800, 16000), ("dead", 250, 4800), ("diag", 160, 160), ("nonabs", 60, 504),
            ("samerow", 144, 144), ("loopdiag", 72, 72), ("slowrew", 36, 72), ("forced", 64, 128), ("degen", 75, 75), ("minreachrank", 48, 48), ("zerow", 36, 36), ("order3", 48, 48)],
    "C10": [("hist", 250, 3000), ("edit", 120, 2000), ("zerow", 36, 36), ("degen", 75, 75)],
    "C13": [("perm", 400, 8000)],
}


def game_key(g):
    return hashlib.sha256(json.dumps(g, sort_keys=True).encode()).hexdigest()[:16]


def both_script(stopping, variant=0):
    """Both pruning modes on one description; variants differ in the order of the
    two calls and in whether the second call reuses the first call's object."""
    mode = "solve" if stopping else "cond"
    first = variant % 2 == 0
    obj = "A" if variant % 4 >= 2 else "new"
    return [{"op": "snap", "d": 1},
            {"op": "call", "d": 1, "prune": first, "mode": mode, "obj": obj},
            {"op": "snap", "d": 1},
            {"op": "call", "d": 1, "prune": not first, "mode": mode, "obj": obj},
            {"op": "snap", "d": 1}]


def hist_script(calls, variant=0):
    """variant % 3 == 1: the player labels alternate between the constants exported by tad and
    equal strings from a parser; variant % 3 == 2: the first call once more in a fresh
    interpreter with another string-hash seed ("again" = the next run of the tool)."""
    out = [{"op": "snap", "d": 1}]
    for j, c in enumerate(calls):
        op = {"op": "call", "d": 1, "prune": bool(c["prune"]), "mode": "solve", "obj": c["obj"]}
        if variant % 3 == 1:
            op["labels"] = "const" if j % 2 == 0 else "fresh"
        out.append(op)
        out.append({"op": "snap", "d": 1})
    if variant % 3 == 1 and len(calls) == 1:
        out.append({"op": "call", "d": 1, "prune": bool(calls[0]["prune"]), "mode": "solve", "obj": "new",
                    "labels": "fresh"})
        out.append({"op": "snap", "d": 1})
    if variant % 3 == 2 and calls:
        out.append({"op": "call", "d": 1, "prune": bool(calls[0]["prune"]), "mode": "solve", "obj": "new",
                    "xproc": 1 + variant % 7})
        out.append({"op": "snap", "d": 1})
    return out


def edit_script(calls):
    """calls on the description, an in-place edit by the caller, the same calls again"""
    out = [{"op": "snap", "d": 1}]
    for c in calls:
        out.append({"op": "call", "d": 1, "prune": bool(c["prune"]), "mode": "solve", "obj": c["obj"]})
        out.append({"op": "snap", "d": 1})
    out.append({"op": "edit", "d": 2, "py": 1})
    out.append({"op": "snap", "d": 2, "py": 1})
    for c in calls:
        # objects made before the edit hold the old lists' aliases: always a fresh object here
        # (what an object built before the edit means afterwards is not fixed by any property: an
        # implementation that copies its description at construction would keep solving the old one)
        out.append({"op": "call", "d": 2, "py": 1, "prune": bool(c["prune"]), "mode": "solve", "obj": "new"})
        out.append({"op": "snap", "d": 2, "py": 1})
    return out


def perm_script(stopping):
    mode = "solve" if stopping else "cond"
    out = []
    for prune in (True, False):
        for d in (1, 2):
            out.append({"op": "call", "d": d, "prune": prune, "mode": mode, "obj": "new"})
    return out


def build_sessions(gens, exact=True):
    sessions = []
    for d in gens:
        s = {"tid": len(sessions) + 1, "fam": d["fam"], "exact": exact}
        if d["fam"] == "hist":
            s["descs"] = [d["g"]]
            s["script"] = hist_script(d["calls"], s["tid"])
        elif d["fam"] == "edit":
            s["descs"] = [d["g"], d["g2"]]
            s["script"] = edit_script(d["calls"])
        elif d["fam"] == "perm":
            s["descs"] = [d["g"], d["h"]]
            s["rel"] = d["rel"]
            s["script"] = perm_script(d.get("solvemode", d["stopping"]))
        else:
            s["descs"] = [d["g"]]
            s["script"] = both_script(d.get("solvemode", d["stopping"]), len(sessions))
            if s["tid"] % 5 == 2:
                s["descs"] = [odd_names(d["g"])]
        # the batch runner on the caller's own dictionary, between two snapshots (C10)
        if (s["tid"] % 4 == 1 or d["fam"] in ("degen", "nonabs")) and d["fam"] not in ("perm", "edit") \
                and d.get("solvemode", d.get("stopping")):
            s["script"] = s["script"] + [{"op": "batch", "d": 1}, {"op": "snap", "d": 1}]
        # other legal Python number types; a DEBUG log level (small games only: it logs every state of every sweep)
        s["numtypes"] = s["tid"] % 6 == 4
        s["debuglog"] = s["tid"] % 7 == 5 and d["fam"] not in ("slow", "tiny", "slowrew", "bigrew")
        # astronomically large rewards (every reward times 2**70; the hist/edit/perm scripts compare
        # whole results, which is unaffected, but are left alone)
        if s["tid"] % 9 == 8 and d["fam"] in ("stop", "dead", "ties", "diag", "samerow", "nonabs", "forced", "degen", "bigrew"):
            s["rmulpow"] = 70
        sessions.append(s)
    return sessions


ODD_NAMES = ["", "go", "go left", "g", " ", "Go", "go  left", "left.go", "go_", "-", "0"]


def odd_names(g):
    """The same game with action names that are legal but unusual: spaces, a single blank, names that
    are prefixes of each other, the empty string, a digit (an injective renaming; state by state the order of first
    appearance decides, so one name means different things in different states, as in the originals)."""
    names = []
    for row, o in zip(g["tr"], g["owner"]):
        if o != "PR":
            for e in row:
                if e["a"] not in names:
                    names.append(e["a"])
    if len(names) > len(ODD_NAMES):
        return g
    m = {a: ODD_NAMES[i] for i, a in enumerate(names)}
    h = dict(g)
    h["tr"] = [[dict(e, a=m[e["a"]]) if o != "PR" else dict(e) for e in row] for row, o in zip(g["tr"], g["owner"])]
    return h


BIG_PROPS = ("C01", "C02", "C03", "C04", "C05", "C06", "C10", "C13")
BIG_QUICK = [(3, 3, 11), (1, 12, 12), (12, 1, 13), (5, 5, 14), (2, 2, 15)]
BIG_THOROUGH = BIG_QUICK + [(8, 8, 21), (10, 5, 22), (20, 10, 23), (3, 200, 24), (6, 6, 26), (4, 7, 27)]


def permute_game(g, rng):
    """A random presentation change of a spec-encoded game (pi fixes state 1)."""
    n = g["n"]
    rest = list(range(2, n + 1))
    rng.shuffle(rest)
    pi = [1] + rest                                   # pi[s-1] = new index of s
    rho = []
    for s in range(n):
        order = list(range(1, len(g["tr"][s]) + 1))
        rng.shuffle(order)
        rho.append(order)
    names = sorted({e["a"] for row in g["tr"] for e in row if e["a"]})
    alpha = [[a, "r_" + a] for a in names] if rng.random() < 0.5 else []
    amap = dict((a, b) for a, b in alpha)
    inv = {pi[s]: s for s in range(n)}                # new index -> old state (0-based)
    h = {"n": n, "owner": [g["owner"][inv[t]] for t in range(1, n + 1)],
         "reward": [g["reward"][inv[t]] for t in range(1, n + 1)],
         "tr": [[{"a": amap.get(g["tr"][inv[t]][j - 1]["a"], g["tr"][inv[t]][j - 1]["a"]),
                  "w": g["tr"][inv[t]][j - 1]["w"], "t": pi[g["tr"][inv[t]][j - 1]["t"] - 1]}
                 for j in rho[inv[t]]] for t in range(1, n + 1)],
         "final": [pi[f - 1] for f in g["final"]]}
    return h, {"kind": "perm", "pi": pi, "rho": rho, "alpha": alpha}


def big_sessions(prop, tier, seed, repo):
    """Sessions on games far beyond the exact domain (generated boards, committed inputs):
    judged with the size-independent clauses only (exact = False)."""
    import glob
    import random
    import subprocess
    import sys
    from vlib import games as G
    rng = random.Random(seed * 7919 + int(prop[1:]))
    code = (
        "import sys, json, os, tempfile\n"
        "sys.path.insert(0, sys.argv[1]); sys.dont_write_bytecode = True\n"
        "import roberta_generator as rg, conditionalrewards as cr\n"
        "os.chdir(tempfile.mkdtemp()); os.makedirs('inputs')\n"
        "out = []\n"
        "for L, W, sd, fd in json.loads(sys.argv[2]):\n"
        "    m, r, lo = rg.gen_rnd_board(sd, L, W, 0.3, 6, fd)\n"
        "    rg.write_robots('inputs/b.py', L, W, m, r, lo, 0.1, 0.1, 0.05)\n"
        "    d = cr.read_dict_from_file('inputs/b.py')\n"
        "    for k in d: out.append(['%dx%d/%s' % (L, W, k), d[k]])\n"
        "print(json.dumps(out))\n")
    shapes = BIG_QUICK if tier == "quick" else BIG_THOROUGH
    spec = [(L, W, sd + seed, (sd % 2 == 0)) for (L, W, sd) in shapes]
    p = subprocess.run(["/venv/bin/python", "-c", code, repo, json.dumps(spec)], stdout=subprocess.PIPE,
                       stderr=subprocess.PIPE, timeout=900)
    if p.returncode != 0:
        raise common.MachineryError("board generation for the big family failed: " + p.stderr.decode()[-800:])
    named = [(n, d) for n, d in json.loads(p.stdout.decode())]
    files = sorted(glob.glob(os.path.join(repo, "inputs", "*.py")))
    limit = 60000 if tier == "quick" else 3000000
    for path in files:
        if os.path.getsize(path) > limit:
            continue
        try:
            with open(path) as f:
                d = eval(f.read())
            for k, g in d.items():
                named.append((os.path.basename(path) + ":" + k, g))
        except Exception:
            continue
    # hand-built games beyond the exact domain
    # (a) a corridor of ascending states: the value travels one state per sweep (> 1000 sweeps)
    ncor = 1300
    owners = ["Probabilistic", "Player 1", "Player 2"]
    cor = {"rewards": [0] * (ncor + 2), "players": ["Probabilistic"] + [owners[i % 3] for i in range(1, ncor - 1)]
           + ["Probabilistic", "Probabilistic", "Probabilistic"],
           "transition_list": [[(0.5, ncor), (0.5, 1)]]
           + [([(1, i + 1)] if owners[i % 3] == "Probabilistic" else [("f", i + 1)]) for i in range(1, ncor - 1)]
           + [[(1, ncor)]] + [[(1, ncor)], [(1, ncor + 1)]],
           "final_states": [ncor]}
    # (TLC's graph fixed points take one round per state of such a chain: thorough only)
    if prop in ("C01", "C02", "C06") and tier != "quick":
        named.append(("corridor%d" % ncor, cor))
    # (b) a value of 1e-10 (two hops of 1e-5) next to dead states: positive, hence live
    for o in ("Player 1", "Player 2", "Probabilistic"):
        first = [(0.5, 1), (0.5, 3)] if o == "Probabilistic" else [("a", 1), ("b", 3)]
        named.append(("tiny2/" + o, {
            "rewards": [1, 2, 3, 1, 0, 0], "players": [o] + ["Probabilistic"] * 5,
            "transition_list": [first, [(0.00001, 2), (0.99999, 4)], [(0.00001, 5), (0.99999, 4)],
                                [(0.5, 1), (0.5, 4)], [(1, 4)], [(1, 5)]],
            "final_states": [5]}))
    sessions = []
    for name, desc in named:
        try:
            desc = {k: desc[k] for k in ("rewards", "players", "transition_list", "final_states")}
            if any(not isinstance(r, int) or isinstance(r, bool) or r > 10 ** 9 for r in desc["rewards"]):
                continue                        # rewards like 5/3 or 10**25 do not fit the integer encoding
            g, exact = G.from_python(desc, 10 ** 6)
            if not exact:
                continue                        # probabilities that are not multiples of 1e-6
        except Exception:
            continue
        s = {"fam": "big", "exact": False, "budget": 90.0 if name.startswith("corridor") else 10.0, "name": name}
        if prop == "C13":
            h, rel = permute_game(g, rng)
            s["descs"] = [g, h]
            s["rel"] = rel
            s["script"] = [{"op": "call", "d": d_, "prune": pr, "mode": "solve", "obj": "new",
                            "unless_pruned_raised": not pr}
                           for pr in (True, False) for d_ in (1, 2)]
        elif prop == "C10":
            s["descs"] = [g]
            s["script"] = hist_script([{"obj": "A", "prune": True}, {"obj": "A", "prune": True},
                                       {"obj": "new", "prune": True}])
        else:
            s["descs"] = [g]
            s["script"] = [{"op": "snap", "d": 1},
                           {"op": "call", "d": 1, "prune": True, "mode": "solve", "obj": "new"},
                           {"op": "call", "d": 1, "prune": False, "mode": "solve", "obj": "new",
                            "unless_prev_raised": True},
                           {"op": "snap", "d": 1}]
        sessions.append(s)
    return sessions


def threshold_sessions(gens):
    """C01 / C04 quantify over the solver threshold: the public Solver API with thresholds
    10^-4 and 10^-8 (tolerances and the rounding grain of the strategies scale with it)."""
    out = []
    for i, d in enumerate(gens):
        if d["fam"] in ("hist", "edit", "perm", "slow") or i % 4 != 0:
            continue
        for digits, eps in ((4, 100000), (8, 10)):
            out.append({"fam": d["fam"], "exact": True, "descs": [d["g"]], "eps": eps,
                        "script": [{"op": "call", "d": 1, "prune": pr, "mode": "cond", "obj": "new", "digits": digits}
                                   for pr in (True, False)]})
    return out


def classify(prop, clause, known_open):
    """-> ('violation' | 'known:<id>' | 'other' | 'machinery')"""
    name = clause
    kid = None
    if ":" in clause.split(" ")[0] and clause[0] == "K":
        kid, name = clause.split(":", 1)
    if name.startswith("Machinery.") or name.startswith("Protocol."):
        return "machinery"
    if not name.startswith(prop + "."):
        return "other"
    if kid is not None and any(k["id"] == kid and k["property"] == prop for k in known_open):
        return "known:" + kid
    return "violation"


def judge(prop, sessions, verdicts, res, known_open):
    nontrivial = set()
    sample_done = False
    for s in sessions:
        v = verdicts[s["tid"]]
        for n in v["notes"]:
            res.notes[n] = res.notes.get(n, 0) + 1
        if NONTRIVIAL[prop] in v["notes"]:
            nontrivial.add(game_key(s["descs"]))
        bad = []
        for clause in v["fails"]:
            c = classify(prop, clause, known_open)
            if c == "machinery":
                raise common.MachineryError("session %s: %s\n%s" % (s["tid"], clause, json.dumps(s)[:3000]))
            if c == "violation":
                bad.append(clause)
            elif c.startswith("known:"):
                kid = c.split(":", 1)[1]
                what = next(k["what"] for k in known_open if k["id"] == kid)
                res.add_known(kid, what)
        if bad:
            res.add_violation("; ".join(sorted(bad)),
                              {"kind": "solver", "property": prop, "session": strip(s), "fails": sorted(bad)})
        if not sample_done and NONTRIVIAL[prop] in v["notes"]:
            res.coverage["samples"].append({"session": strip(s, events=True), "verdict": v})
            sample_done = True
    return nontrivial


def strip(s, events=False):
    keys = ("fam", "exact", "descs", "script", "rel", "eps", "numtypes", "debuglog", "rmulpow") + (("events",) if events else ())
    return {k: s[k] for k in keys if k in s}


def run_mc(prop, tier, seed, res):
    """Design-level model checking that backs the property (module MC_Solver)."""
    if prop == "C13":
        k = 40 if tier == "quick" else 1500
        r = tlc.run("MC_Transform", env={"GEN_K": k, "GEN_FAMILY": "perm", "GEN_OUT": "x"},
                    args=["-seed", str(seed * 31 + 13)], timeout=7200)
        if r.timed_out:
            raise common.MachineryError("MC_Transform timed out")
        if not r.ok:
            res.add_violation("MC_Transform (ValuesCommute): " + "; ".join(r.errors)[:300],
                              {"kind": "mc", "property": "C13", "module": "MC_Transform", "k": k, "seed": seed,
                               "family": "perm", "output": r.out[-3000:]})
        res.notes["MC_Transform.cases"] = k
        return
    plan = {
        "C03": [("dead", 25, 400), ("zerow", 36, 36), ("finaldeadend", 20, 72)],
        "C06": [("stop", 25, 400), ("degen", 75, 75)],
        "C10": [("dead", 15, 200)],
        "C02": [("stop", 25, 400), ("minreachrank", 48, 48)],
        "C05": [("stop", 20, 300), ("gap5", 16, 16)],
        "C14": [("forced", 20, 128), ("order3", 10, 48)],
        "C04": [("order3", 8, 48), ("jump1", 0, 144)],
    }.get(prop, [])
    for fam, kq, kt in plan:
        k = kq if tier == "quick" else kt
        if k == 0:
            continue
        r = tlc.run("MC_Solver", env={"MC_FAMILY": fam, "GEN_K": k, "GEN_FAMILY": "x", "GEN_OUT": "x"},
                    workers=4 if tier == "quick" else 16, gc="parallel", heap="6g",
                    args=["-seed", str(seed)], timeout=7200)
        if r.timed_out:
            raise common.MachineryError("MC_Solver timed out")
        if not r.ok:
            res.add_violation("MC_Solver: " + "; ".join(r.errors)[:500],
                              {"kind": "mc", "module": "MC_Solver", "family": fam, "k": k, "seed": seed,
                               "output": r.out[-4000:]})
        res.coverage["states"] += r.distinct
        res.coverage["transitions"] += r.generated
        res.notes["MC_Solver.%s.distinct_states" % fam] = r.distinct


def run(prop, tier, seed, repo):
    res = common.Result(prop, tier, seed)
    known_open = common.load_known()["open"]
    work = tempfile.mkdtemp(prefix="verif_%s_" % prop)
    try:
        import concurrent.futures
        pool_ = concurrent.futures.ThreadPoolExecutor(max_workers=8)
        mc_res = common.Result(prop, tier, seed)          # MC_Solver runs alongside the trace flow
        mc_future = pool_.submit(run_mc, prop, tier, seed, mc_res)
        futs = [pool_.submit(sf.generate, fam, (kq if tier == "quick" else kt),
                             seed * 1000 + int(prop[1:]) * 10 + i, work)
                for i, (fam, kq, kt) in enumerate(BATTERY[prop])]
        gens = []
        for f in futs:
            gens += f.result()
        import time
        t1 = time.time()
        sessions = build_sessions(gens)
        if prop in ("C01", "C04"):
            for t in threshold_sessions(gens):
                t["tid"] = len(sessions) + 1
                sessions.append(t)
        if prop in BIG_PROPS:
            for b in big_sessions(prop, tier, seed, repo):
                b["tid"] = len(sessions) + 1
                sessions.append(b)
            res.notes["big_sessions"] = sum(1 for x in sessions if x["fam"] == "big")
        t2 = time.time()
        verdicts, st = sf.record_validate(sessions, repo, work, budget=10.0,
                                          long_budget=300.0 if tier == "quick" else 1800.0)
        t3 = time.time()
        res.notes["rerun_with_long_budget"] = st["rerun_with_long_budget"]
        res.notes["time.generate_s"] = round(t1 - res.t0, 1)
        res.notes["time.record_validate_s"] = round(t3 - t2, 1)
        nontrivial = judge(prop, sessions, verdicts, res, known_open)
        cov = res.coverage
        cov["evaluations"] = len(sessions)
        cov["distinct_nontrivial"] = len(nontrivial)
        cov["traces_validated_against_impl"] = len(sessions)
        cov["states"] += st["distinct"]
        cov["transitions"] += st["generated"]
        cov["rule"] = ("sessions = TLC-generated game descriptions (families %s; seed-reproducible) x call "
                       "scripts, executed on the real code and judged event by event by Trace_Solver; a "
                       "session is non-trivial for %s when its verdict carries the note '%s'; distinct = "
                       "distinct descriptions" % ([b[0] for b in BATTERY[prop]], prop, NONTRIVIAL[prop]))
        cov["families"] = {b[0]: (b[1] if tier == "quick" else b[2]) for b in BATTERY[prop]}
        mc_future.result()
        pool_.shutdown()
        res.violations += mc_res.violations
        res.kinds.update(mc_res.kinds)
        res.notes.update(mc_res.notes)
        cov["states"] += mc_res.coverage["states"]
        cov["transitions"] += mc_res.coverage["transitions"]
        res.notes["time.mc_wait_s"] = round(time.time() - t3, 1)
        res.assumptions += [
            "exact game values exist only on the exact domain (n <= 7, weights <= 9): DESIGN section 11",
            "convergence tolerance is read as eps*H(G) (DESIGN section 5)",
            "TLC, the JVM and the harness projection (vlib/obs.py) are trusted",
        ]
        if len(nontrivial) < 2:
            raise common.MachineryError("vacuous run: %d non-trivial cases for %s" % (len(nontrivial), prop))
    finally:
        shutil.rmtree(work, ignore_errors=True)
    return res


def replay(rep, repo):
    """Re-execute one recorded behaviour and print the clauses that fail."""
    if rep.get("kind") == "mc":
        r = tlc.run(rep["module"], env={"MC_FAMILY": rep["family"], "GEN_K": rep["k"], "GEN_FAMILY": "x",
                                        "GEN_OUT": "x"}, workers=8, gc="parallel", heap="6g",
                    args=["-seed", str(rep["seed"])])
        print(r.out[-3000:])
        return 0 if r.ok else 1
    prop = rep["property"]
    s = dict(rep["session"])
    s["tid"] = 1
    work = tempfile.mkdtemp(prefix="verif_replay_")
    try:
        sf.record([s], repo, budget=10.0, nproc=1)
        verdicts, _ = sf.validate([s], work, nshards=1)
    finally:
        shutil.rmtree(work, ignore_errors=True)
    v = verdicts[1]
    print("events:", [e["e"] for e in s["events"]])
    print("failing clauses now:", v["fails"])
    print("failing clauses when recorded:", rep.get("fails"))
    known_open = [k for k in common.load_known()["open"] if k["property"] == prop]
    cls = [classify(prop, c, known_open) for c in v["fails"]]
    for kid in sorted({c for c in cls if c.startswith("known:")}):
        print("KNOWN-FINDING: property=%s %s" % (prop, kid.split(":")[1]))
    mine = [c for c, k in zip(v["fails"], cls) if k == "violation"]
    if mine:
        print("VIOLATION property=%s replay=%s" % (prop, "(replayed)"))
        return 1
    return 0
