"""C12 (batch isolation and failure reporting) and C16 (saved report, reader,
command line) share one flow: TLC generates ordered dictionaries of games
(module Gen_Batch), the harness writes each as an input file in a scratch
directory, reads it back with the repository's reader, runs run_games, saves
the report, runs the command line, and records everything together with the
result of solving every game alone; TLC replays the run through the batch
machine (Trace_Batch, module Batch/Report) and judges each entry and line.
MC_Batch model-checks the protocol itself and its two counter-models."""
import json
import os
import shutil
import tempfile
import time

from vlib import tlc, pool, obs
from . import common


def mc(res, tier):
    """Design level: the batch protocol and its deliberately wrong variants."""
    r = tlc.run("Batch", cfg="MC_Batch", workers=8, gc="parallel", heap="4g", timeout=3600)
    if not r.ok:
        res.add_violation("MC_Batch: " + "; ".join(r.errors)[:400], {"kind": "mc", "property": res.prop,
                                                                    "cfg": "MC_Batch", "output": r.out[-3000:]})
    res.coverage["states"] += r.distinct
    res.coverage["transitions"] += r.generated
    res.notes["MC_Batch.distinct_states"] = r.distinct
    for cfg in ("MC_Batch_NoCopy", "MC_Batch_Sticky"):
        r2 = tlc.run("Batch", cfg=cfg, workers=4, gc="parallel", heap="4g", timeout=3600)
        found = any("Isolation is violated" in e or "FailureProtocol is violated" in e for e in r2.errors)
        res.notes[cfg + ".counterexample_found"] = bool(found)
        if not found:
            raise common.MachineryError("%s: the counter-model no longer violates its invariant (vacuity)" % cfg)


def run(prop, tier, seed, repo):
    res = common.Result(prop, tier, seed)
    known_open = common.load_known()["open"]
    work = tempfile.mkdtemp(prefix="verif_%s_" % prop)
    try:
        out = os.path.join(work, "batch.json")
        fam, k = ("sample", 70) if tier == "quick" else ("all", 0)
        r = tlc.run("Gen_Batch", env={"GEN_K": k, "GEN_OUT": out, "GEN_FAMILY": fam},
                    args=["-seed", str(seed * 100 + 12)], timeout=7200, heap="6g", stack="512m")
        if not r.ok:
            raise common.MachineryError("Gen_Batch failed: %s\n%s" % (r.errors, r.out[-2000:]))
        with open(out) as f:
            cases = json.load(f)
        sessions = []
        for i, c in enumerate(cases):
            sessions.append({"tid": i + 1, "names": [g["name"] for g in c["games"]],
                             "kinds": [g["kind"] for g in c["games"]], "file": c["file"],
                             "tgs": [g["tg"] for g in c["games"]], "style": i % 3,
                             "uni": i % 4 == 3,      # non-ASCII game and action names (UTF-8 file)
                             "flags": [g.get("ps", "none") for g in c["games"]]})
        jobs = [{"kind": "batch", "names": s["names"], "tgs": s["tgs"], "file": s["file"], "style": s["style"],
                 "dotslash": s["tid"] % 3 == 0, "flags": s["flags"], "uni": s["uni"], "clivariants": s["tid"] % 3 == 1, "budget": 120.0} for s in sessions]
        t1 = time.time()
        results = pool.run_jobs(jobs, repo, budget=120.0)
        for s, (events, status) in zip(sessions, results):
            if status != "ok" or not events:
                raise common.MachineryError("harness failure in batch session %s: %s" % (s["tid"], status))
            s.update({k2: events[0][k2] for k2 in ("solos", "out", "report", "readback", "written", "cli")})
        t2 = time.time()
        nsh = max(1, min(12, len(sessions) // 20))
        jobs = []
        for i in range(nsh):
            path = os.path.join(work, "batch_%d.json" % i)
            recs = [{k2: s[k2] for k2 in ("tid", "names", "kinds", "file", "tgs", "solos", "out", "report", "readback",
                                           "written", "cli")} for s in sessions[i::nsh]]
            obs.check_ints(recs)
            with open(path, "w") as f:
                json.dump(recs, f)
            jobs.append(dict(module="Trace_Batch", env={"TRACE_FILE": path}, workers=1, timeout=7200, stack="512m"))
        rs = tlc.run_parallel(jobs, nproc=12)
        verdicts = {}
        for r in rs:
            if not r.ok:
                raise common.MachineryError("TLC failed: %s\n%s" % (r.errors, r.out[-2500:]))
            res.coverage["states"] += r.distinct
            res.coverage["transitions"] += r.generated
            for v in r.printed:
                if isinstance(v, dict) and "tid" in v:
                    verdicts[v["tid"]] = v
        nontrivial = set()
        for s in sessions:
            v = verdicts.get(s["tid"])
            if v is None:
                raise common.MachineryError("no verdict for session %s" % s["tid"])
            for n in v["notes"]:
                if not n.startswith("kinds:"):
                    res.notes[n] = res.notes.get(n, 0) + 1
            nv = len(s.get("cli", {}).get("variants", []))
            if nv:
                res.notes["cli.variants"] = res.notes.get("cli.variants", 0) + nv
            if len(s["names"]) >= 2:
                nontrivial.add(json.dumps([s["names"], s["kinds"]]))
            bad = []
            for c in v["fails"]:
                kid, name = (c.split(":", 1) if c.startswith("K") and ":" in c.split(" ")[0] else (None, c))
                if name.startswith("Machinery."):
                    raise common.MachineryError("session %s: %s" % (s["tid"], name))
                if name.startswith("X."):
                    # growth beyond the listed properties: reported in the evidence, never a verdict
                    res.notes["beyond:" + name] = res.notes.get("beyond:" + name, 0) + 1
                if not name.startswith(prop + "."):
                    continue
                ko = [x for x in known_open if x["id"] == kid and x["property"] == prop] if kid else []
                if ko:
                    res.add_known(kid, ko[0]["what"])
                else:
                    bad.append(c)
            if bad:
                res.add_violation("; ".join(sorted(bad)),
                                  {"kind": "batch", "property": prop, "names": s["names"], "kinds": s["kinds"],
                                   "tgs": s["tgs"], "file": s["file"], "style": s["style"], "flags": s["flags"],
                                   "uni": s["uni"], "fails": sorted(bad)})
        mc(res, tier)
        cov = res.coverage
        cov["evaluations"] = len(sessions)
        cov["distinct_nontrivial"] = len(nontrivial)
        cov["traces_validated_against_impl"] = len(sessions)
        cov["exhaustive"] = tier != "quick"
        cov["rule"] = ("ordered selections of <= 3 games from the pool of Gen_Batch.tla (solvable with / without dead "
                       "branches, unsolvable, malformed) under 4 name sets, plus the fixed dictionaries (key collision, twins, "
                       "own flags, scale, twin edges, sure orphan); %s; each "
                       "is written as a file in one of two textual styles, read back, run through run_games, saved, "
                       "and run through the command line; non-trivial = at least two games; distinct = distinct "
                       "(names, kinds)" % ("a TLC sample of %d" % k if tier == "quick" else "all of them"))
        s0 = sessions[len(sessions) // 2]
        cov["samples"] = [{"names": s0["names"], "kinds": s0["kinds"], "file": s0["file"],
                           "entries": [{"key": e["key"], "msg": e["msg"]} for e in s0["out"]["entries"]],
                           "report_files": s0["report"]["files"], "cli": s0["cli"]}]
        res.notes.update({"time.record_s": round(t2 - t1, 1), "time.validate_s": round(time.time() - t2, 1)})
        res.assumptions += ["wall-clock fields (total_time / 'Total time') are excluded from every comparison",
                            "values are compared through their repr / str text (exact for the types involved)"]
        if prop == "C12" and res.notes.get("C12.solvedafterfailure", 0) < 1:
            raise common.MachineryError("no dictionary with a failing game before a solvable one was explored")
    finally:
        shutil.rmtree(work, ignore_errors=True)
    return res


def replay(rep, repo):
    job = {"kind": "batch", "names": rep["names"], "tgs": rep["tgs"], "file": rep["file"], "style": rep["style"],
           "flags": rep.get("flags", []), "uni": rep.get("uni", False), "clivariants": True}
    (events, status), = pool.run_jobs([job], repo, nproc=1, budget=120.0)
    ev = events[0] if events else {}
    print("names:", rep["names"], "kinds:", rep["kinds"], status)
    print("entries:", [(e["key"], e["msg"]) for e in ev.get("out", {}).get("entries", [])])
    print("report files:", ev.get("report", {}).get("files"), "cli:", ev.get("cli"))
    print("failing clauses when recorded:", rep["fails"])
    return 1
