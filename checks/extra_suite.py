"""run.py extra suite: the repository's own 57 tests, run unedited with the hooks on, as a
source of traces (code -> spec).  The suite's assertions compare a handful of numbers; here
every solve and every backward search the suite performs (directly or inside a solve) is
recorded by vlib/suite_plugin.py and judged by the same trace specifications as the generated
behaviours (Trace_Solver with the exact oracle, Trace_RevDFS), i.e. every clause of
C01-C06, C10, C14 and C07 is evaluated on what the tests already execute."""
import json
import os
import shutil
import subprocess
import tempfile

from vlib import tlc, obs, solver_flow as sf

PROPS = ("C01", "C02", "C03", "C04", "C05", "C06", "C10", "C14")


def run(args):
    work = tempfile.mkdtemp(prefix="verif_suite_")
    out = os.path.join(work, "suite.ndjson")
    rc = 0
    try:
        env = dict(os.environ, VERIF_SUITE_OUT=out, CONDREWARDS_VERIF="1", PYTHONDONTWRITEBYTECODE="1",
                   PYTHONPATH=os.path.dirname(os.path.dirname(os.path.abspath(__file__))) + os.pathsep + args.repo)
        p = subprocess.run(["/venv/bin/python", "-m", "pytest", "-q", "-p", "no:cacheprovider", "-p",
                            "vlib.suite_plugin"], cwd=args.repo, env=env, stdout=subprocess.PIPE,
                           stderr=subprocess.STDOUT, timeout=1800)
        tail = p.stdout.decode().strip().splitlines()[-1:]
        print("suite with recording plugin:", tail)
        if p.returncode != 0:
            print(p.stdout.decode()[-2000:])
            return 2
        recs = [json.loads(l) for l in open(out)] if os.path.exists(out) else []
        solves = [r for r in recs if r["kind"] == "solve"]
        revs = [r for r in recs if r["kind"] == "revdfs"]
        print("recorded: %d solves, %d backward searches, from %d tests"
              % (len(solves), len(revs), len({r["test"] for r in recs})))
        if not solves or not revs:
            print("nothing recorded: the plugin is not bound to the code")
            return 2
        # solves -> Trace_Solver
        sessions = []
        outside = [r for r in solves if not r["g"]["final"]]
        solves = [r for r in solves if r["g"]["final"]]
        for r in outside:
            print("  outside the properties' domain (no final state; the test expects the ValueError): %s" % r["test"])
        for i, r in enumerate(solves):
            small = r["g"]["n"] <= 9 and r["weights_exact"]
            sessions.append({"tid": i + 1, "fam": "suite", "exact": bool(small), "descs": [r["g"]],
                             "events": r["events"], "test": r["test"]})
        verdicts, st = sf.validate(sessions, work)
        bad = 0
        for s in sessions:
            v = verdicts[s["tid"]]
            mine = [c for c in v["fails"] if c.split(".")[0] in PROPS or c.startswith("Machinery") or c.startswith("Protocol")]
            known = [c for c in v["fails"] if c[0] == "K" and ":" in c.split(" ")[0]]
            if mine:
                bad += 1
                print("  %s: %s" % (s["test"], mine[:5]))
            elif known:
                print("  %s: known finding %s" % (s["test"], sorted({k.split(":")[0] for k in known})))
        print("Trace_Solver: %d solve sessions judged (%d with the exact oracle), %d with failing clauses"
              % (len(sessions), sum(1 for s in sessions if s["exact"]), bad))
        # backward searches -> Trace_RevDFS
        rsess = [{"tid": i + 1, "tl": r["tl"], "finals": r["finals"], "table": r["table"], "ret": r["ret"],
                  "big": len(r["tl"]) > 40, "rank": []} for i, r in enumerate(revs)]
        rsess = [r for r in rsess if not r["big"]]
        path = os.path.join(work, "rev.json")
        obs.check_ints(rsess)
        with open(path, "w") as f:
            json.dump(rsess, f)
        r = tlc.run("Trace_RevDFS", env={"TRACE_FILE": path}, workers=1, timeout=3600, heap="3g", stack="512m")
        if not r.ok:
            print("TLC failed:", r.errors, r.out[-1500:])
            return 2
        rbad = 0
        n = 0
        for v in r.printed:
            if isinstance(v, dict) and "tid" in v:
                n += 1
                if v["fails"]:
                    rbad += 1
                    print("  search %s: %s" % (v["tid"], v["fails"][:4]))
        print("Trace_RevDFS: %d searches judged, %d with failing clauses" % (n, rbad))
        rc = 1 if bad or rbad or n != len(rsess) else 0
    finally:
        shutil.rmtree(work, ignore_errors=True)
    print("EXTRA suite %s" % ("OK" if rc == 0 else "DEVIATIONS"))
    return rc
