"""run.py selftest [--mutants]: demonstrates that the specification is bound to the code.

(i)   records a few real sessions, corrupts ONE recorded field at a time and requires the
      clause that guards that field to fail (and nothing to fail on the uncorrupted trace);
(ii)  removes one hook event and requires a Protocol clause;
(iii) with --mutants: applies every patch in /verif/mutants and /verif/seeded to a scratch
      copy of the repository (outside /repo and /verif) and requires the quick check of the
      property it breaks to report a VIOLATION; the copy is deleted afterwards."""
import copy
import glob
import json
import os
import shutil
import subprocess
import tempfile

from vlib import solver_flow as sf
from . import solver_props as sp

VERIF = os.path.dirname(os.path.dirname(os.path.abspath(__file__)))


def corruptions(s):
    """(name, expected clause prefix, mutated session)"""
    out = []
    ev = s["events"]
    idx = {e["e"]: i for i, e in reversed(list(enumerate(ev)))}          # first occurrence of each kind

    def clone():
        return copy.deepcopy(s)
    if "ReachDone" in idx:
        c = clone(); e = c["events"][idx["ReachDone"]]
        k = max(range(len(e["prob"])), key=lambda j: (e["prob"][j]["f"], e["prob"][j]["i"]))
        e["prob"][k]["f"] = (e["prob"][k]["f"] + 5000000) % 10 ** 9       # 5e-3 off
        e["prob"][k]["z"] = False; e["prob"][k]["o"] = False
        out.append(("probability digit", "C01.", c))
        c = clone(); e = c["events"][idx["ReachDone"]]
        for st in e["rstrat"]:
            if not st["none"] and st["acts"]:
                st["acts"] = st["acts"] + ["zz"]
                break
        out.append(("foreign action in a reachability strategy", "C04.Subsequence", c))
    if "Conditioned" in idx:
        c = clone(); e = c["events"][idx["Conditioned"]]
        for row in e["nodes"]:
            if len(row) >= 1:
                row.pop()
                break
        out.append(("one conditioned transition missing", "C03.", c))
        c = clone(); del c["events"][idx["Conditioned"]]
        out.append(("hook event 'Conditioned' removed", "Protocol.", c))
    if "Return" in idx:
        c = clone(); e = c["events"][idx["Return"]]
        e["rew"][0]["i"] += 1
        out.append(("reward of the initial state + 1", "C02.", c))
        c = clone(); e = c["events"][idx["Return"]]
        e["fstrat"], e["rstrat"] = e["rstrat"], e["fstrat"]
        out.append(("final and reachability strategies swapped", "C0", c))
    snaps = [i for i, e in enumerate(ev) if e["e"] == "Snap"]
    if len(snaps) >= 2:
        c = clone(); c["events"][snaps[-1]]["snap"] = "0" * 32
        out.append(("description digest after the call changed", "C10.DescSame", c))
    return out


def run(args):
    work = tempfile.mkdtemp(prefix="verif_selftest_")
    bad = 0
    try:
        gens = sf.generate("dead", 40, 4242, work)
        sessions = sp.build_sessions([g for g in gens if g["stopping"]][:12])
        sf.record(sessions, args.repo, budget=10.0)
        verdicts, _ = sf.validate(sessions, work, nshards=1)
        clean = [s for s in sessions if not verdicts[s["tid"]]["fails"]
                 and any(e["e"] == "Return" for e in s["events"])]
        print("recorded %d sessions, %d clean with a Return" % (len(sessions), len(clean)))
        if not clean:
            print("SELFTEST FAILED: no clean session to corrupt")
            return 2
        base = max(clean, key=lambda s: sum(len(r) for r in s["descs"][0]["tr"]))
        cases = corruptions(base)
        for i, (_, _, c) in enumerate(cases):
            c["tid"] = i + 1
        v2, _ = sf.validate([c for _, _, c in cases], work, nshards=1)
        for (name, prefix, c) in cases:
            fails = v2[c["tid"]]["fails"]
            hit = [f for f in fails if f.startswith(prefix)]
            print("%-50s -> %s" % (name, (hit[:2] if hit else "NOT REJECTED: " + str(fails[:3]))))
            if not hit:
                bad += 1
    finally:
        shutil.rmtree(work, ignore_errors=True)
    if args.mutants:
        patches = sorted(glob.glob(os.path.join(VERIF, "mutants", "*.diff")))
        patches += sorted(glob.glob(os.path.join(VERIF, "seeded", "*", "patch.diff")))
        import re
        import concurrent.futures
        only = getattr(args, "only", None)
        if only:
            patches = [p for p in patches if re.search(only, os.path.relpath(p, VERIF))]

        def one(p):
            props = target_props(p)
            if not props:
                return "%-60s not claimed (see meta.json: undetected_reason)" % os.path.relpath(p, VERIF), 0
            tmp = tempfile.mkdtemp(prefix="selftest_repo_", dir="/tmp")
            try:
                subprocess.run(["cp", "-r", os.path.join(args.repo, "."), tmp], check=True)
                if subprocess.run(["git", "-C", tmp, "apply", p]).returncode != 0:
                    return "%-60s PATCH DOES NOT APPLY" % os.path.relpath(p, VERIF), 1
                detected = []
                note = ""
                for attempt in (1, 2):          # a second look before "not detected" is believed (a loaded machine)
                    for prop in props:
                        r = subprocess.run([os.path.join(VERIF, "run.py"), "check", prop, "--quick", "--repo", tmp],
                                           stdout=subprocess.PIPE, stderr=subprocess.STDOUT)
                        if r.returncode == 1 and b"VIOLATION property=" in r.stdout:
                            detected.append(prop)
                            break
                    if detected:
                        note = " (on the second run)" if attempt == 2 else ""
                        break
                return ("%-60s %s" % (os.path.relpath(p, VERIF), "detected by " + detected[0] + note if detected
                                       else "NOT DETECTED by " + ",".join(props)), 0 if detected else 1)
            finally:
                shutil.rmtree(tmp, ignore_errors=True)

        with concurrent.futures.ThreadPoolExecutor(max_workers=max(1, int(getattr(args, "jobs", 1) or 1))) as ex:
            for line, b in ex.map(one, patches):
                print(line, flush=True)
                bad += b
    print("SELFTEST %s" % ("OK" if bad == 0 else "FAILED (%d)" % bad))
    return 0 if bad == 0 else 1


PREFIX_PROPS = {"D1": ["C03"], "D2": ["C10"], "D3": ["C07"], "D4": ["C08"], "D5": ["C17"], "D6": ["C09"],
                "D7": ["C15"], "D8": ["C06"], "D9": ["C15"], "D10": ["C06"]}


def target_props(path):
    name = os.path.basename(path)
    if name == "patch.diff":
        meta = json.load(open(os.path.join(os.path.dirname(path), "meta.json")))
        if meta.get("undetected_reason"):
            return []
        return meta.get("detected_by") or [meta["breaks_property"]]
    if name.startswith("prefix_"):
        return PREFIX_PROPS[name[len("prefix_"):-len(".diff")]]
    if name.startswith("m_c"):
        return ["C" + name[3:5]]
    return []
