"""C09: malformed descriptions are rejected with ValueError, never solved, and
the batch runner records the failure.  TLC generates every malformation of
module Malformed for a pool of base games, the harness feeds each to
StochasticGame(...).solve() (both modes) and to run_games, TLC judges."""
import json
import os
import shutil
import tempfile
import time

from vlib import tlc, pool, obs
from . import common


def run(prop, tier, seed, repo):
    res = common.Result(prop, tier, seed)
    work = tempfile.mkdtemp(prefix="verif_C09_")
    try:
        k = 14 if tier == "quick" else 120
        out = os.path.join(work, "malformed.json")
        r = tlc.run("Gen_MalMain", env={"GEN_K": k, "GEN_OUT": out, "GEN_FAMILY": "malformed"},
                    args=["-seed", str(seed * 100 + 9)], timeout=7200, heap="8g")
        if not r.ok:
            raise common.MachineryError("Gen_Malformed failed: %s\n%s" % (r.errors, r.out[-2000:]))
        with open(out) as f:
            cases = json.load(f)
        sessions = [{"tid": i + 1, "rule": c["rule"], "where": c["where"], "tg": c["tg"], "base": c["base"]}
                    for i, c in enumerate(cases)]
        jobs = [{"kind": "malformed", "tg": s["tg"], "base": s["base"], "budget": 20.0} for s in sessions]
        t1 = time.time()
        results = pool.run_jobs(jobs, repo, budget=20.0)
        for s, (events, status) in zip(sessions, results):
            if status == "timeout":
                events = events + [{"e": "Direct", "how": "timeout", "prune": True, "k": "Timeout", "etype": ""}]
            elif status != "ok":
                raise common.MachineryError("harness failure: %s" % status)
            s["events"] = events
        t2 = time.time()
        nsh = max(1, min(14, len(sessions) // 150))
        jobs = []
        for i in range(nsh):
            path = os.path.join(work, "mal_%d.json" % i)
            recs = [{k2: s[k2] for k2 in ("tid", "rule", "where", "tg", "events")} for s in sessions[i::nsh]]
            obs.check_ints(recs)
            with open(path, "w") as f:
                json.dump(recs, f)
            jobs.append(dict(module="Trace_Malformed", env={"TRACE_FILE": path}, workers=1, timeout=7200))
        rs = tlc.run_parallel(jobs, nproc=14)
        verdicts = {}
        for r in rs:
            if not r.ok:
                raise common.MachineryError("TLC failed: %s\n%s" % (r.errors, r.out[-2500:]))
            res.coverage["states"] += r.distinct
            res.coverage["transitions"] += r.generated
            for v in r.printed:
                if isinstance(v, dict) and "tid" in v:
                    verdicts[v["tid"]] = v
        distinct = set()
        for s in sessions:
            v = verdicts.get(s["tid"])
            if v is None:
                raise common.MachineryError("no verdict for session %s" % s["tid"])
            for n in v["notes"]:
                res.notes[n] = res.notes.get(n, 0) + 1
            distinct.add(json.dumps(s["tg"], sort_keys=True))
            for c in v["fails"]:
                if c.startswith("Machinery."):
                    raise common.MachineryError(c)
            bad = sorted(c for c in v["fails"] if c.startswith("C09."))
            if bad:
                res.add_violation("; ".join(bad), {"kind": "malformed", "property": "C09", "rule": s["rule"],
                                                    "where": s["where"], "tg": s["tg"], "base": s["base"],
                                                    "fails": bad})
        cov = res.coverage
        cov["evaluations"] = len(sessions)
        cov["distinct_nontrivial"] = len(distinct)
        cov["traces_validated_against_impl"] = len(sessions)
        cov["rule"] = ("for each of the base games (figure 5.5 + %d TLC-sampled stopping games) every malformation "
                       "of module Malformed: 12 rules x every position (state, transition, tuple slot) x boundary / "
                       "ill-typed values; each is solved directly in both modes and inside a 3-game batch; every "
                       "case is non-trivial (TLC re-checks that the named rule is really broken); distinct = "
                       "distinct malformed descriptions" % k)
        cov["samples"] = [{"rule": sessions[0]["rule"], "where": sessions[0]["where"], "events": sessions[0]["events"]},
                          {"rule": sessions[-1]["rule"], "where": sessions[-1]["where"], "events": sessions[-1]["events"]}]
        res.notes.update({"time.record_s": round(t2 - t1, 1), "time.validate_s": round(time.time() - t2, 1)})
        res.assumptions += ["error messages are not compared, only the exception type",
                            "ill-typed values are limited to the kinds the property lists (DESIGN section 7, C09)"]
        missing = [r for r in ("LenTr", "LenRew", "RewNonNeg", "FinalNonEmpty", "FinalRange", "OwnerKnown",
                               "HasTransitions", "TupleShape", "ActionIsStr", "ProbIsNum", "SuccIsInt", "SuccRange")
                   if ("C09." + r) not in res.notes]
        if missing:
            raise common.MachineryError("rules never exercised: %s" % missing)
    finally:
        shutil.rmtree(work, ignore_errors=True)
    return res


def replay(rep, repo):
    (events, status), = pool.run_jobs([{"kind": "malformed", "tg": rep["tg"], "base": rep["base"]}], repo, nproc=1)
    print("rule:", rep["rule"], "at", rep["where"])
    print("observed:", events, status)
    print("failing clauses when recorded:", rep["fails"])
    return 1
