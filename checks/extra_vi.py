"""run.py extra vi: algorithm-level conformance of the reachability value iteration.

Not a verdict on any listed property (C01 speaks about the result, not about the sweeps):
(1) model-checks the interval machine of spec/VI.tla on TLC-generated families (bracket,
monotonicity, exact zero tracking, convergence, and the tolerance lemma of DESIGN section 5);
(2) records every sweep of the real iteration (hook ReachSweep) on the same kind of games and
lets TLC replay them through the machine (Trace_VI): each recorded vector must lie inside the
interval of its sweep and the number of sweeps must be one the stopping rule allows."""
import json
import os
import shutil
import tempfile

from vlib import tlc, pool, obs, solver_flow as sf


def run(args):
    seed = int(os.environ.get("VERIF_SEED", "1"))
    work = tempfile.mkdtemp(prefix="verif_vi_")
    bad = 0
    try:
        for fam, k in (("rand", 150), ("stop", 150), ("ties", 1)):
            r = tlc.run("MC_VI", env={"MC_FAMILY": fam, "GEN_K": k, "GEN_FAMILY": "x", "GEN_OUT": "x"},
                        workers=8, gc="parallel", heap="6g", args=["-seed", str(seed)], timeout=3600)
            print("MC_VI %-5s %s  distinct states %d" % (fam, "ok" if r.ok else "FAILED " + str(r.errors)[:200], r.distinct))
            bad += 0 if r.ok else 1
        gens = sf.generate("rand", 250, seed * 77 + 1, work) + sf.generate("stop", 250, seed * 77 + 2, work) \
            + sf.generate("ties", 80, seed * 77 + 3, work)
        sessions = [{"tid": i + 1, "g": d["g"]} for i, d in enumerate(gens)]
        results = pool.run_jobs([{"kind": "vi", "g": s["g"], "budget": 60.0} for s in sessions], args.repo, budget=60.0)
        for s, (events, status) in zip(sessions, results):
            if status != "ok" or not events:
                print("harness failure:", status)
                return 2
            s["sweeps"] = events[0]["sweeps"]
            s["truncated"] = events[0]["truncated"]
        nsh = 8
        jobs = []
        for i in range(nsh):
            path = os.path.join(work, "vi_%d.json" % i)
            recs = sessions[i::nsh]
            obs.check_ints(recs)
            with open(path, "w") as f:
                json.dump(recs, f)
            jobs.append(dict(module="Trace_VI", env={"TRACE_FILE": path}, workers=1, timeout=3600))
        total = fails = sweeps = 0
        for r in tlc.run_parallel(jobs, nproc=nsh):
            if not r.ok:
                print("TLC failed on a sweep trace:", r.errors, r.out[-1500:])
                return 2
            for v in r.printed:
                if isinstance(v, dict) and "tid" in v:
                    total += 1
                    sweeps += int([n for n in v["notes"] if n.startswith("sweeps=")][0].split("=")[1])
                    if v["fails"]:
                        fails += 1
                        if fails <= 5:
                            print("  session %s: %s" % (v["tid"], v["fails"][:4]))
        print("Trace_VI: %d sessions, %d sweeps replayed, %d sessions with algorithm-level deviations"
              % (total, sweeps, fails))
        bad += 1 if fails or total != len(sessions) else 0
    finally:
        shutil.rmtree(work, ignore_errors=True)
    print("EXTRA vi %s" % ("OK" if bad == 0 else "DEVIATIONS (%d)" % bad))
    return 0 if bad == 0 else 1
