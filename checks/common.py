"""Shared plumbing of the checks: results, evidence, replay files, known findings."""
import hashlib
import json
import os
import time

VERIF = os.path.dirname(os.path.dirname(os.path.abspath(__file__)))
KNOWN_FILE = os.path.join(VERIF, "known_findings.json")


class MachineryError(Exception):
    """The check itself could not do its job (exit 2); never a verdict."""


def load_known():
    try:
        with open(KNOWN_FILE) as f:
            return json.load(f)
    except FileNotFoundError:
        return {"open": [], "fixed": []}


class Result:
    """What one run of one check found."""

    def __init__(self, prop, tier, seed, level="model_checking"):
        self.prop = prop
        self.tier = tier
        self.seed = seed
        self.level = level
        self.t0 = time.time()
        self.violations = []     # dicts: clause, replay (path)
        self.known = []          # dicts: id, what, count
        self.coverage = {"evaluations": 0, "distinct_nontrivial": 0, "rule": "", "samples": [],
                         "states": 0, "transitions": 0, "traces_validated_against_impl": 0}
        self.assumptions = []
        self.notes = {}
        self.kinds = {}

    def add_violation(self, clause, replay_obj):
        import re
        kind = re.sub(r"(s|a|d|at)=\S+", "", clause)
        self.kinds[kind] = self.kinds.get(kind, 0) + 1
        if len(self.violations) >= 20:      # enough to act on; keep the replay directory small
            self.violations.append({"clause": clause, "replay": self.violations[-1]["replay"]})
            return
        path = save_replay(self.prop, replay_obj)
        self.violations.append({"clause": clause, "replay": path})

    def add_known(self, kid, what, n=1):
        for k in self.known:
            if k["id"] == kid:
                k["count"] += n
                return
        self.known.append({"id": kid, "what": what, "count": n})

    def finish(self):
        ev = {
            "property_id": self.prop,
            "tier": self.tier,
            "seed": int(self.seed),
            "level": self.level,
            "coverage": self.coverage,
            "assumptions": self.assumptions,
            "wall_s": round(time.time() - self.t0, 2),
            "violations": len(self.violations),
            "known_findings_matched": self.known,
            "clauses_exercised": self.notes,
            "violation_kinds": self.kinds,
        }
        os.makedirs(os.path.join(VERIF, "evidence"), exist_ok=True)
        with open(os.path.join(VERIF, "evidence", self.prop + ".json"), "w") as f:
            json.dump(ev, f, indent=1, sort_keys=True)
            f.write("\n")
        for k in self.known:
            print("KNOWN-FINDING: property=%s %s %s (%d occurrences in this run)"
                  % (self.prop, k["id"], k["what"], k["count"]))
        seen = set()
        for v in self.violations:
            if v["replay"] in seen:
                continue
            seen.add(v["replay"])
            print("VIOLATION property=%s replay=%s" % (self.prop, v["replay"]))
            print("  clause: %s" % v["clause"])
        if not self.violations:
            print("OK property=%s tier=%s seed=%s wall=%.1fs evaluations=%d traces=%d states=%d"
                  % (self.prop, self.tier, self.seed, time.time() - self.t0,
                     self.coverage["evaluations"], self.coverage["traces_validated_against_impl"],
                     self.coverage["states"]))
        return 1 if self.violations else 0


def save_replay(prop, obj):
    text = json.dumps(obj, sort_keys=True)
    h = hashlib.sha256(text.encode()).hexdigest()[:16]
    d = os.path.join(VERIF, "replays", prop)
    os.makedirs(d, exist_ok=True)
    path = os.path.join(d, h + ".json")
    with open(path, "w") as f:
        f.write(text + "\n")
    return path
