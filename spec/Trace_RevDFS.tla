---------------------------- MODULE Trace_RevDFS ----------------------------
(***************************************************************************)
(* Trace validation for C07.  Sessions: [tid, tl, finals, table, ret, big, *)
(* rank]; two steps per session (the table, then the search), then the     *)
(* verdict line.                                                           *)
(***************************************************************************)
EXTENDS ReverseDFS, Json, IOUtils

Sessions == JsonDeserialize(IOEnv.TRACE_FILE)
VARIABLES tid, step, fails
tvars == <<tid, step, fails>>
S == Sessions[tid]

Init == tid \in DOMAIN Sessions /\ step = "table" /\ fails = {}

CheckTable ==
    /\ step = "table"
    /\ fails' = fails \cup TableClauses(S.tl, S.table, S.big)
    /\ step' = "search" /\ UNCHANGED tid

CheckSearch ==
    /\ step = "search"
    /\ fails' = fails \cup SearchClauses(S.tl, S.finals, S.ret, S.big, S.rank)
    /\ step' = "verdict" /\ UNCHANGED tid

Verdict ==
    /\ step = "verdict"
    /\ PrintT(ToJson([tid |-> S.tid, fails |-> fails,
                      notes |-> (IF S.ret.ok /\ Len(S.ret.val) > 0 THEN {"C07.nonempty"} ELSE {})
                                \cup (IF \E u \in DOMAIN S.tl : \E k \in DOMAIN S.tl[u] :
                                            Cardinality({w \in DOMAIN S.tl : S.tl[u][k] \in {S.tl[w][j] : j \in DOMAIN S.tl[w]}}) >= 2
                                      THEN {"C07.shared"} ELSE {})]))
    /\ step' = "done" /\ UNCHANGED <<tid, fails>>

Next == CheckTable \/ CheckSearch \/ Verdict
Spec == Init /\ [][Next]_tvars
=============================================================================
