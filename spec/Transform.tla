----------------------------- MODULE Transform -----------------------------
(***************************************************************************)
(* C13: presentations of one game.  A relation record                      *)
(*   [kind |-> "perm", pi, rho, alpha]                                     *)
(* denotes: state s becomes pi[s] (pi[1] = 1), the j-th transition of the  *)
(* new state pi[s] is the old transition number rho[s][j] of s, and action *)
(* names are renamed by the pairs in alpha (injective).                    *)
(***************************************************************************)
EXTENDS Clauses

Alpha(rel, a) ==
    IF a = "" THEN ""
    ELSE IF \E i \in DOMAIN rel.alpha : rel.alpha[i][1] = a
         THEN rel.alpha[CHOOSE i \in DOMAIN rel.alpha : rel.alpha[i][1] = a][2]
         ELSE a

Inv(pi, t) == CHOOSE s \in DOMAIN pi : pi[s] = t

IsPresentationRel(g, rel) ==
    /\ Len(rel.pi) = g.n /\ rel.pi[1] = 1
    /\ {rel.pi[s] : s \in 1..g.n} = 1..g.n
    /\ \A s \in 1..g.n : /\ Len(rel.rho[s]) = Len(g.tr[s])
                         /\ {rel.rho[s][j] : j \in DOMAIN rel.rho[s]} = DOMAIN g.tr[s]
    /\ \A i, j \in DOMAIN rel.alpha : i # j => /\ rel.alpha[i][1] # rel.alpha[j][1]
                                                /\ rel.alpha[i][2] # rel.alpha[j][2]

TransformGame(g, rel) ==
    [n |-> g.n,
     owner  |-> [t \in 1..g.n |-> g.owner[Inv(rel.pi, t)]],
     reward |-> [t \in 1..g.n |-> g.reward[Inv(rel.pi, t)]],
     tr |-> [t \in 1..g.n |->
               LET s == Inv(rel.pi, t)
               IN  [j \in DOMAIN g.tr[s] |->
                      LET e == g.tr[s][rel.rho[s][j]]
                      IN  Tr(Alpha(rel, e.a), e.w, rel.pi[e.t])]],
     final |-> [i \in DOMAIN g.final |-> rel.pi[g.final[i]]]]

\* spec-level C13: the semantic functions commute with a presentation change
ValuesCommute(g, rel) ==
    LET h   == TransformGame(g, rel)
        rvg == ReachValue(g)
        rvh == ReachValue(h)
        stg == IsStopping(g)
    IN  /\ \A s \in 1..g.n : rvh[rel.pi[s]] = rvg[s]
        /\ ZeroSet(h) = {rel.pi[s] : s \in ZeroSet(g)}
        /\ IsStopping(h) = stg
        /\ (stg => LET wg == RewardValue(g, States(g))
                       wh == RewardValue(h, States(h))
                   IN  \A s \in 1..g.n : wh[rel.pi[s]] = wg[s])

-----------------------------------------------------------------------------
(* relational clauses between the outcome o of the call on description 2   *)
(* and the stored outcome of the same call on description 1                *)

\* the only action (index) within G nano of the optimum, or 0
ClearOpt(kind, row, val, G) ==
    LET vf   == [j \in DOMAIN row |-> Fx(val[row[j].t])]
        optf == CHOOSE x \in SeqSet(vf) :
                   \A y \in SeqSet(vf) : IF kind = P1 THEN FixLeq(y, x) ELSE FixLeq(x, y)
        near == {j \in DOMAIN row : ~ClearlyWorse(kind, vf[j], optf, G)}
    IN  IF Cardinality(near) = 1 THEN CHOOSE j \in near : TRUE ELSE 0

\* a reported number whose rounding to six decimals is beyond numerical doubt
OffBoundary(x) == x.k = "ok" /\ LET m == x.f % 1000 IN m < 496 \/ m > 504
\* the two runs report the same numbers (to 1e-9) for every competitor of a row
SameNumbers(row, v1, v2, rel) ==
    \A j \in DOMAIN row : LET t == row[j].t
                          IN  OffBoundary(v1[t]) /\ OffBoundary(v2[rel.pi[t]])
                              /\ FixNear(Fx(v2[rel.pi[t]]), Fx(v1[t]), 1)

HasRel(S) == "rel" \in DOMAIN S /\ S.rel.kind = "perm"

\* at the reachability observation of description 2
RelReachClauses(S, d, prune, p2, rs2, reached, orcs) ==
    IF ~HasRel(S) \/ d # 2 \/ ~(<<1, prune>> \in DOMAIN reached) THEN {}
    ELSE
    LET rel == S.rel
        g   == S.descs[1]
        r1  == reached[<<1, prune>>]
        ex  == S.exact
        ptol(s) == IF ex THEN 2 * orcs[1].tol[s] + 4 ELSE 1000000
        G == 4000
        \* without the oracle there is no bound H for the stopping error; the distance between
        \* the two runs' numbers for the competitors of s is what is known about it.  A flip of
        \* a rounded comparison needs a competitor to move by half the gap between the runs,
        \* so a gap beyond G + 2 * disc cannot flip in an implementation that compares
        \* rounded values, whatever the stopping error is.
        disc(s) == LET ds == {FixDist(Fx(p2[rel.pi[g.tr[s][k].t]]), Fx(r1.prob[g.tr[s][k].t])) : k \in DOMAIN g.tr[s]}
                   IN  CHOOSE x \in ds : \A y \in ds : y <= x
    IN  (IF ~IsPresentationRel(g, rel) \/ S.descs[2] # TransformGame(g, rel)
         THEN {"Machinery.BadTransform"} ELSE {})
        \cup (IF Len(p2) # g.n \/ Len(rs2) # g.n \/ Len(r1.prob) # g.n \/ Len(r1.rstrat) # g.n
              THEN {"C13.Length"}
              ELSE
                {"C13.ProbRenumbered s=" \o S2(s) :
                    s \in {s \in 1..g.n : ptol(s) < Nano /\
                             ~FixNear(Fx(p2[rel.pi[s]]), Fx(r1.prob[s]), ptol(s))}}
                \cup {"C13.ZeroRenumbered s=" \o S2(s) :
                    s \in {s \in 1..g.n : p2[rel.pi[s]].z # r1.prob[s].z}}
                \cup {"C13.RStratRenamed s=" \o S2(s) :
                    s \in {s \in 1..g.n : g.owner[s] # PR /\ ~r1.rstrat[s].none /\
                             LET j == IF disc(s) >= 100000000 THEN 0
                                      ELSE ClearOpt(g.owner[s], g.tr[s], r1.prob, G + (IF ex THEN 2 * ptol(s) ELSE 2 * disc(s)))
                             IN  j # 0 /\ ptol(s) < Nano /\
                                 ~( r1.rstrat[s].acts = <<g.tr[s][j].a>>
                                    /\ rs2[rel.pi[s]].acts = <<Alpha(rel, g.tr[s][j].a)>> )}}
                \* the two runs saw the same competition, number for number: the lists must
                \* correspond whatever the ties (a change that resolves ties by position)
                \cup {"C13.RStratTieRenamed s=" \o S2(s) :
                    s \in {s \in 1..g.n : g.owner[s] # PR /\ ~r1.rstrat[s].none /\ ~rs2[rel.pi[s]].none /\
                             SameNumbers(g.tr[s], r1.prob, p2, rel) /\
                             {Alpha(rel, r1.rstrat[s].acts[j]) : j \in DOMAIN r1.rstrat[s].acts}
                                # SeqSet(rs2[rel.pi[s]].acts)}}
                \cup {"C13.RStratShape s=" \o S2(s) :
                    s \in {s \in 1..g.n : rs2[rel.pi[s]].none # r1.rstrat[s].none}})

\* at the outcome of the call on description 2
RelClauses(S, d, prune, o, outs, orcs) ==
    IF ~HasRel(S) \/ d # 2 \/ ~(<<1, prune>> \in DOMAIN outs)
    THEN {}
    ELSE
    LET rel == S.rel
        g   == S.descs[1]
        o1  == outs[<<1, prune>>]
        ex  == S.exact
        \* (exact sessions without a tolerance from the oracle -- the input game is not stopping but the
        \*  pipeline terminates: a coarse 10^-2, as for the states outside the reachable part)
        rtol(s) == IF s \in DOMAIN o1.rtol THEN 2 * o1.rtol[s] + 4 ELSE (IF ex THEN 10000000 ELSE 1000000)
        G == 4000
        \* K4 (known finding, DESIGN section 8): the two presentations resolved an exact tie
        \* of reachability values differently (K1 seen through C13), so Player 1 is cut to
        \* different actions and the reward phase solves two different conditioned games.
        \* Differences at states whose competition is clearly decided are reported by
        \* C13.RStratRenamed and are never excused.
        tieflip == o1.k = "Return" /\ o.k = "Return" /\
                   \E s \in 1..g.n : g.owner[s] # PR /\ ~o1.rstrat[s].none /\ ~o.rstrat[rel.pi[s]].none /\
                       {Alpha(rel, o1.rstrat[s].acts[j]) : j \in DOMAIN o1.rstrat[s].acts}
                          # SeqSet(o.rstrat[rel.pi[s]].acts)
        KT == IF tieflip THEN "K4:" ELSE ""
    IN  (IF o1.k # o.k \/ o1.cls # o.cls THEN {"C13.SolvableSame"} ELSE {})
        \cup (IF o1.k # "Return" \/ o.k # "Return" THEN {}
              ELSE
                {KT \o "C13.RewRenumbered s=" \o S2(s) :
                    s \in {s \in o1.dom : rtol(s) < Nano /\
                             ~FixNear(Fx(o.rew[rel.pi[s]]), Fx(o1.rew[s]), rtol(s))}}
                \* states the conditioned play cannot enter: whatever the solver reports for them (cleared
                \* or not), it must not depend on the presentation; a coarse tolerance, since no bound
                \* on the stopping error is available there
                \cup {KT \o "C13.RewRenumbered (outside the reachable part) s=" \o S2(s) :
                    s \in {s \in (1..g.n) \ o1.dom :
                             Len(o1.rew) = g.n /\ Len(o.rew) = g.n /\ o1.rew[s].k = "ok" /\ o.rew[rel.pi[s]].k = "ok"
                             /\ ~FixNear(Fx(o.rew[rel.pi[s]]), Fx(o1.rew[s]), 10000000)}}
                \cup {KT \o "C13.FStratRenamed s=" \o S2(s) :
                    s \in {s \in o1.dom : g.owner[s] # PR /\ ~o1.rstrat[s].none /\
                             LET row == SelectSeq(g.tr[s], LAMBDA e :
                                           /\ (g.owner[s] = P1 => e.a \in SeqSet(o1.rstrat[s].acts))
                                           /\ (prune /\ g.owner[s] = P1 => ~o1.prob[e.t].z))
                             IN  Len(row) > 0 /\ rtol(s) < Nano /\
                                 LET ds == {FixDist(Fx(o.rew[rel.pi[row[k].t]]), Fx(o1.rew[row[k].t])) : k \in DOMAIN row}
                                     dr == IF ex THEN 0 ELSE CHOOSE x \in ds : \A y \in ds : y <= x
                                     j  == IF dr >= 100000000 THEN 0 ELSE ClearOpt(g.owner[s], row, o1.rew, G + 2 * rtol(s) + 2 * dr)
                                 IN  j # 0 /\
                                     ~( o1.fstrat[s].acts = <<row[j].a>>
                                        /\ o.fstrat[rel.pi[s]].acts = <<Alpha(rel, row[j].a)>> )}}
                \cup {"C13.FStratTieRenamed s=" \o S2(s) :
                    s \in {s \in o1.dom : ~tieflip /\ g.owner[s] # PR /\ ~o1.rstrat[s].none /\
                             ~o1.fstrat[s].none /\ ~o.fstrat[rel.pi[s]].none /\
                             LET row == SelectSeq(g.tr[s], LAMBDA e :
                                           /\ (g.owner[s] = P1 => e.a \in SeqSet(o1.rstrat[s].acts))
                                           /\ (prune /\ g.owner[s] = P1 => ~o1.prob[e.t].z))
                             IN  Len(row) > 0 /\ SameNumbers(row, o1.rew, o.rew, rel) /\
                                 {Alpha(rel, o1.fstrat[s].acts[j]) : j \in DOMAIN o1.fstrat[s].acts}
                                    # SeqSet(o.fstrat[rel.pi[s]].acts)}})

=============================================================================
