----------------------------- MODULE GeneratorRules -------------------------
(***************************************************************************)
(* C15 / C17 (and the front half of C11): the board generator's contract.  *)
(* The pseudo-random stream is not modelled: Gen(p) may return ANY board   *)
(* satisfying BoardOK(p, .) the first time parameters p are used and must  *)
(* return the same board every later time (memo) - that is reproducibility *)
(* as an action property.  Refuse(p) iff ~ParamsOK(p), and then nothing is *)
(* written; Write(p) adds exactly FileName(p).                             *)
(*                                                                         *)
(* Parameters: [seed, width, length, maxr, rb, lb, tb, lt, fd]; a          *)
(* probability is [k |-> "num", n, d] (= n/d) or [k |-> "nan"].            *)
(***************************************************************************)
EXTENDS Integers, Sequences, FiniteSets, TLC

ProbOK(x) == x.k = "num" /\ x.d > 0 /\ 0 < x.n /\ x.n < x.d
ParamsOK(p) ==
    /\ p.seed >= 0 /\ p.width >= 1 /\ p.length >= 1 /\ p.maxr >= 1
    /\ ProbOK(p.rb) /\ ProbOK(p.lb) /\ ProbOK(p.tb) /\ ProbOK(p.lt)

\* which documented range a refused parameter set violates (for the evidence)
Broken(p) ==
    (IF p.seed < 0 THEN {"seed"} ELSE {}) \cup (IF p.width < 1 THEN {"width"} ELSE {})
    \cup (IF p.length < 1 THEN {"length"} ELSE {}) \cup (IF p.maxr < 1 THEN {"maxr"} ELSE {})
    \cup (IF ~ProbOK(p.rb) THEN {"rb"} ELSE {}) \cup (IF ~ProbOK(p.lb) THEN {"lb"} ELSE {})
    \cup (IF ~ProbOK(p.tb) THEN {"tb"} ELSE {}) \cup (IF ~ProbOK(p.lt) THEN {"lt"} ELSE {})

\* a board is [moves, rewards, loose]: sequences of rows
Rect(m, L, W) == Len(m) = L /\ \A i \in 1..L : Len(m[i]) = W
ShapeOK(p, b) == Rect(b.moves, p.length, p.width) /\ Rect(b.rewards, p.length, p.width)
                 /\ Rect(b.loose, p.length, p.width)
RewardRangeOK(p, b) == \A i \in DOMAIN b.rewards : \A j \in DOMAIN b.rewards[i] :
                           b.rewards[i][j] >= 0 /\ b.rewards[i][j] <= p.maxr
LooseFlagOK(b) == \A i \in DOMAIN b.loose : \A j \in DOMAIN b.loose[i] : b.loose[i][j] \in {0, 1}
ArrowsOK(p, b) == \A i \in DOMAIN b.moves : \A j \in DOMAIN b.moves[i] :
                      b.moves[i][j] \in (IF p.fd THEN 0..3 ELSE 0..2)
\* at least one down-only tile per row exactly when force-down is set
ForceDownIff(p, b) == \A i \in DOMAIN b.moves :
                          (\E j \in DOMAIN b.moves[i] : b.moves[i][j] = 3) = p.fd

BoardClauses(p, b) ==
    IF ~ShapeOK(p, b) THEN {"C15.Shape"}
    ELSE (IF RewardRangeOK(p, b) THEN {} ELSE {"C15.RewardRange"})
         \cup (IF LooseFlagOK(b) THEN {} ELSE {"C15.LooseFlag"})
         \cup (IF ArrowsOK(p, b) THEN {} ELSE {"C15.Arrows"})
         \cup (IF ForceDownIff(p, b) THEN {} ELSE {"C15.ForceDownIff"})
BoardOK(p, b) == BoardClauses(p, b) = {}

\* loose-tile frequency at 6 sigma, for lt = n/d on an N-tile board with c loose tiles:
\*     |d c - N n| <= 6 * sqrt(N n (d - n))
ISqrtUp(v) == CHOOSE r \in 0..25000 : r * r >= v /\ (r = 0 \/ (r - 1) * (r - 1) < v)
FreqOK(c, N, x) == LET dev == x.d * c - N * x.n
                       a   == IF dev < 0 THEN -dev ELSE dev
                   IN  a <= 6 * ISqrtUp(N * x.n * (x.d - x.n))
CountLoose(b) == LET rowc(i) == Cardinality({j \in DOMAIN b.loose[i] : b.loose[i][j] = 1})
                     RECURSIVE S(_)
                     S(i) == IF i = 0 THEN 0 ELSE rowc(i) + S(i - 1)
                 IN  S(Len(b.loose))

-----------------------------------------------------------------------------
(* C17: the file name.  A probability k/100 is written as k.               *)
IsPercent(x) == x.k = "num" /\ x.d = 100
Pct(x) == ToString(x.n)
\* seeds beyond 32 bits are carried as decimal text (TLC integers are 32 bit); their number field is 1
SeedText(p) == IF "seedtxt" \in DOMAIN p THEN p.seedtxt ELSE ToString(p.seed)
FileName(p) ==
    "inputs/robot_" \o SeedText(p) \o "_w" \o ToString(p.width) \o "_l" \o ToString(p.length)
    \o "_r" \o ToString(p.maxr) \o "_rb" \o Pct(p.rb) \o "_lb" \o Pct(p.lb) \o "_tb" \o Pct(p.tb)
    \o "_lt" \o Pct(p.lt) \o (IF p.fd THEN "_force_down" ELSE "") \o ".py"
WholePercent(p) == IsPercent(p.rb) /\ IsPercent(p.lb) /\ IsPercent(p.tb) /\ IsPercent(p.lt)

=============================================================================
