---- MODULE MC_Solver_TTrace_1791151916 ----
EXTENDS Sequences, TLCExt, Toolbox, MC_Solver, Naturals, TLC

_expression ==
    LET MC_Solver_TEExpression == INSTANCE MC_Solver_TEExpression
    IN MC_Solver_TEExpression!expression
----

_trace ==
    LET MC_Solver_TETrace == INSTANCE MC_Solver_TETrace
    IN MC_Solver_TETrace!trace
----

_inv ==
    ~(
        TLCGet("level") = Len(_TETrace)
        /\
        res = ([none |-> TRUE])
        /\
        rstrat = (<<[none |-> TRUE, acts |-> <<>>], [none |-> FALSE, acts |-> <<"stay">>]>>)
        /\
        prob = (<<[i |-> 1, o |-> TRUE, k |-> "ok", z |-> FALSE, f |-> 0], [i |-> 0, o |-> FALSE, k |-> "ok", z |-> TRUE, f |-> 0]>>)
        /\
        orc = ([rv |-> <<<<1, 1>>, <<0, 1>>>>, zero |-> {2}, stopping |-> FALSE, exact |-> TRUE, eps |-> 1000, rvf |-> <<<<1, 0>>, <<0, 0>>>>, tol |-> <<1, 1>>])
        /\
        hist = ((FALSE :> [none |-> TRUE] @@ TRUE :> [none |-> TRUE]))
        /\
        nodes = (<<<<>>, <<[a |-> "stay", t |-> 2, w |-> 0]>>>>)
        /\
        pc = ("clearing")
        /\
        rew = ([none |-> TRUE])
        /\
        prune = (TRUE)
        /\
        fstrat = ([none |-> TRUE])
        /\
        ro = ([none |-> TRUE])
        /\
        desc = ([tr |-> <<<<[a |-> "", t |-> 2, w |-> 1]>>, <<[a |-> "stay", t |-> 2, w |-> 0]>>>>, n |-> 2, owner |-> <<"PR", "P2">>, reward |-> <<0, 0>>, final |-> <<1>>])
    )
----

_init ==
    /\ res = _TETrace[1].res
    /\ rew = _TETrace[1].rew
    /\ rstrat = _TETrace[1].rstrat
    /\ desc = _TETrace[1].desc
    /\ nodes = _TETrace[1].nodes
    /\ fstrat = _TETrace[1].fstrat
    /\ prob = _TETrace[1].prob
    /\ pc = _TETrace[1].pc
    /\ ro = _TETrace[1].ro
    /\ prune = _TETrace[1].prune
    /\ orc = _TETrace[1].orc
    /\ hist = _TETrace[1].hist
----

_next ==
    /\ \E i,j \in DOMAIN _TETrace:
        /\ \/ /\ j = i + 1
              /\ i = TLCGet("level")
        /\ res  = _TETrace[i].res
        /\ res' = _TETrace[j].res
        /\ rew  = _TETrace[i].rew
        /\ rew' = _TETrace[j].rew
        /\ rstrat  = _TETrace[i].rstrat
        /\ rstrat' = _TETrace[j].rstrat
        /\ desc  = _TETrace[i].desc
        /\ desc' = _TETrace[j].desc
        /\ nodes  = _TETrace[i].nodes
        /\ nodes' = _TETrace[j].nodes
        /\ fstrat  = _TETrace[i].fstrat
        /\ fstrat' = _TETrace[j].fstrat
        /\ prob  = _TETrace[i].prob
        /\ prob' = _TETrace[j].prob
        /\ pc  = _TETrace[i].pc
        /\ pc' = _TETrace[j].pc
        /\ ro  = _TETrace[i].ro
        /\ ro' = _TETrace[j].ro
        /\ prune  = _TETrace[i].prune
        /\ prune' = _TETrace[j].prune
        /\ orc  = _TETrace[i].orc
        /\ orc' = _TETrace[j].orc
        /\ hist  = _TETrace[i].hist
        /\ hist' = _TETrace[j].hist

\* Uncomment the ASSUME below to write the states of the error trace
\* to the given file in Json format. Note that you can pass any tuple
\* to `JsonSerialize`. For example, a sub-sequence of _TETrace.
    \* ASSUME
    \*     LET J == INSTANCE Json
    \*         IN J!JsonSerialize("MC_Solver_TTrace_1791151916.json", _TETrace)

=============================================================================

 Note that you can extract this module `MC_Solver_TEExpression`
  to a dedicated file to reuse `expression` (the module in the 
  dedicated `MC_Solver_TEExpression.tla` file takes precedence 
  over the module `MC_Solver_TEExpression` below).

---- MODULE MC_Solver_TEExpression ----
EXTENDS Sequences, TLCExt, Toolbox, MC_Solver, Naturals, TLC

expression == 
    [
        \* To hide variables of the `MC_Solver` spec from the error trace,
        \* remove the variables below.  The trace will be written in the order
        \* of the fields of this record.
        res |-> res
        ,rew |-> rew
        ,rstrat |-> rstrat
        ,desc |-> desc
        ,nodes |-> nodes
        ,fstrat |-> fstrat
        ,prob |-> prob
        ,pc |-> pc
        ,ro |-> ro
        ,prune |-> prune
        ,orc |-> orc
        ,hist |-> hist
        
        \* Put additional constant-, state-, and action-level expressions here:
        \* ,_stateNumber |-> _TEPosition
        \* ,_resUnchanged |-> res = res'
        
        \* Format the `res` variable as Json value.
        \* ,_resJson |->
        \*     LET J == INSTANCE Json
        \*     IN J!ToJson(res)
        
        \* Lastly, you may build expressions over arbitrary sets of states by
        \* leveraging the _TETrace operator.  For example, this is how to
        \* count the number of times a spec variable changed up to the current
        \* state in the trace.
        \* ,_resModCount |->
        \*     LET F[s \in DOMAIN _TETrace] ==
        \*         IF s = 1 THEN 0
        \*         ELSE IF _TETrace[s].res # _TETrace[s-1].res
        \*             THEN 1 + F[s-1] ELSE F[s-1]
        \*     IN F[_TEPosition - 1]
    ]

=============================================================================



Parsing and semantic processing can take forever if the trace below is long.
 In this case, it is advised to uncomment the module below to deserialize the
 trace from a generated binary file.

\*
\*---- MODULE MC_Solver_TETrace ----
\*EXTENDS IOUtils, MC_Solver, TLC
\*
\*trace == IODeserialize("MC_Solver_TTrace_1791151916.bin", TRUE)
\*
\*=============================================================================
\*

---- MODULE MC_Solver_TETrace ----
EXTENDS MC_Solver, TLC

trace == 
    <<
    ([res |-> [none |-> TRUE],rstrat |-> [none |-> TRUE],prob |-> [none |-> TRUE],orc |-> [rv |-> <<<<1, 1>>, <<0, 1>>>>, zero |-> {2}, stopping |-> FALSE, exact |-> TRUE, eps |-> 1000, rvf |-> <<<<1, 0>>, <<0, 0>>>>, tol |-> <<1, 1>>],hist |-> (FALSE :> [none |-> TRUE] @@ TRUE :> [none |-> TRUE]),nodes |-> <<<<[a |-> "", t |-> 2, w |-> 1]>>, <<[a |-> "stay", t |-> 2, w |-> 0]>>>>,pc |-> "idle",rew |-> [none |-> TRUE],prune |-> FALSE,fstrat |-> [none |-> TRUE],ro |-> [none |-> TRUE],desc |-> [tr |-> <<<<[a |-> "", t |-> 2, w |-> 1]>>, <<[a |-> "stay", t |-> 2, w |-> 0]>>>>, n |-> 2, owner |-> <<"PR", "P2">>, reward |-> <<0, 0>>, final |-> <<1>>]]),
    ([res |-> [none |-> TRUE],rstrat |-> [none |-> TRUE],prob |-> [none |-> TRUE],orc |-> [rv |-> <<<<1, 1>>, <<0, 1>>>>, zero |-> {2}, stopping |-> FALSE, exact |-> TRUE, eps |-> 1000, rvf |-> <<<<1, 0>>, <<0, 0>>>>, tol |-> <<1, 1>>],hist |-> (FALSE :> [none |-> TRUE] @@ TRUE :> [none |-> TRUE]),nodes |-> <<<<[a |-> "", t |-> 2, w |-> 1]>>, <<[a |-> "stay", t |-> 2, w |-> 0]>>>>,pc |-> "called",rew |-> [none |-> TRUE],prune |-> TRUE,fstrat |-> [none |-> TRUE],ro |-> [none |-> TRUE],desc |-> [tr |-> <<<<[a |-> "", t |-> 2, w |-> 1]>>, <<[a |-> "stay", t |-> 2, w |-> 0]>>>>, n |-> 2, owner |-> <<"PR", "P2">>, reward |-> <<0, 0>>, final |-> <<1>>]]),
    ([res |-> [none |-> TRUE],rstrat |-> [none |-> TRUE],prob |-> <<[i |-> 1, o |-> TRUE, k |-> "ok", z |-> FALSE, f |-> 0], [i |-> 0, o |-> FALSE, k |-> "ok", z |-> TRUE, f |-> 0]>>,orc |-> [rv |-> <<<<1, 1>>, <<0, 1>>>>, zero |-> {2}, stopping |-> FALSE, exact |-> TRUE, eps |-> 1000, rvf |-> <<<<1, 0>>, <<0, 0>>>>, tol |-> <<1, 1>>],hist |-> (FALSE :> [none |-> TRUE] @@ TRUE :> [none |-> TRUE]),nodes |-> <<<<[a |-> "", t |-> 2, w |-> 1]>>, <<[a |-> "stay", t |-> 2, w |-> 0]>>>>,pc |-> "reached",rew |-> [none |-> TRUE],prune |-> TRUE,fstrat |-> [none |-> TRUE],ro |-> [none |-> TRUE],desc |-> [tr |-> <<<<[a |-> "", t |-> 2, w |-> 1]>>, <<[a |-> "stay", t |-> 2, w |-> 0]>>>>, n |-> 2, owner |-> <<"PR", "P2">>, reward |-> <<0, 0>>, final |-> <<1>>]]),
    ([res |-> [none |-> TRUE],rstrat |-> <<[none |-> TRUE, acts |-> <<>>], [none |-> FALSE, acts |-> <<"stay">>]>>,prob |-> <<[i |-> 1, o |-> TRUE, k |-> "ok", z |-> FALSE, f |-> 0], [i |-> 0, o |-> FALSE, k |-> "ok", z |-> TRUE, f |-> 0]>>,orc |-> [rv |-> <<<<1, 1>>, <<0, 1>>>>, zero |-> {2}, stopping |-> FALSE, exact |-> TRUE, eps |-> 1000, rvf |-> <<<<1, 0>>, <<0, 0>>>>, tol |-> <<1, 1>>],hist |-> (FALSE :> [none |-> TRUE] @@ TRUE :> [none |-> TRUE]),nodes |-> <<<<[a |-> "", t |-> 2, w |-> 1]>>, <<[a |-> "stay", t |-> 2, w |-> 0]>>>>,pc |-> "strategies",rew |-> [none |-> TRUE],prune |-> TRUE,fstrat |-> [none |-> TRUE],ro |-> [none |-> TRUE],desc |-> [tr |-> <<<<[a |-> "", t |-> 2, w |-> 1]>>, <<[a |-> "stay", t |-> 2, w |-> 0]>>>>, n |-> 2, owner |-> <<"PR", "P2">>, reward |-> <<0, 0>>, final |-> <<1>>]]),
    ([res |-> [none |-> TRUE],rstrat |-> <<[none |-> TRUE, acts |-> <<>>], [none |-> FALSE, acts |-> <<"stay">>]>>,prob |-> <<[i |-> 1, o |-> TRUE, k |-> "ok", z |-> FALSE, f |-> 0], [i |-> 0, o |-> FALSE, k |-> "ok", z |-> TRUE, f |-> 0]>>,orc |-> [rv |-> <<<<1, 1>>, <<0, 1>>>>, zero |-> {2}, stopping |-> FALSE, exact |-> TRUE, eps |-> 1000, rvf |-> <<<<1, 0>>, <<0, 0>>>>, tol |-> <<1, 1>>],hist |-> (FALSE :> [none |-> TRUE] @@ TRUE :> [none |-> TRUE]),nodes |-> <<<<[a |-> "", t |-> 2, w |-> 1]>>, <<[a |-> "stay", t |-> 2, w |-> 0]>>>>,pc |-> "pruning",rew |-> [none |-> TRUE],prune |-> TRUE,fstrat |-> [none |-> TRUE],ro |-> [none |-> TRUE],desc |-> [tr |-> <<<<[a |-> "", t |-> 2, w |-> 1]>>, <<[a |-> "stay", t |-> 2, w |-> 0]>>>>, n |-> 2, owner |-> <<"PR", "P2">>, reward |-> <<0, 0>>, final |-> <<1>>]]),
    ([res |-> [none |-> TRUE],rstrat |-> <<[none |-> TRUE, acts |-> <<>>], [none |-> FALSE, acts |-> <<"stay">>]>>,prob |-> <<[i |-> 1, o |-> TRUE, k |-> "ok", z |-> FALSE, f |-> 0], [i |-> 0, o |-> FALSE, k |-> "ok", z |-> TRUE, f |-> 0]>>,orc |-> [rv |-> <<<<1, 1>>, <<0, 1>>>>, zero |-> {2}, stopping |-> FALSE, exact |-> TRUE, eps |-> 1000, rvf |-> <<<<1, 0>>, <<0, 0>>>>, tol |-> <<1, 1>>],hist |-> (FALSE :> [none |-> TRUE] @@ TRUE :> [none |-> TRUE]),nodes |-> <<<<>>, <<[a |-> "stay", t |-> 2, w |-> 0]>>>>,pc |-> "pruning",rew |-> [none |-> TRUE],prune |-> TRUE,fstrat |-> [none |-> TRUE],ro |-> [none |-> TRUE],desc |-> [tr |-> <<<<[a |-> "", t |-> 2, w |-> 1]>>, <<[a |-> "stay", t |-> 2, w |-> 0]>>>>, n |-> 2, owner |-> <<"PR", "P2">>, reward |-> <<0, 0>>, final |-> <<1>>]]),
    ([res |-> [none |-> TRUE],rstrat |-> <<[none |-> TRUE, acts |-> <<>>], [none |-> FALSE, acts |-> <<"stay">>]>>,prob |-> <<[i |-> 1, o |-> TRUE, k |-> "ok", z |-> FALSE, f |-> 0], [i |-> 0, o |-> FALSE, k |-> "ok", z |-> TRUE, f |-> 0]>>,orc |-> [rv |-> <<<<1, 1>>, <<0, 1>>>>, zero |-> {2}, stopping |-> FALSE, exact |-> TRUE, eps |-> 1000, rvf |-> <<<<1, 0>>, <<0, 0>>>>, tol |-> <<1, 1>>],hist |-> (FALSE :> [none |-> TRUE] @@ TRUE :> [none |-> TRUE]),nodes |-> <<<<>>, <<[a |-> "stay", t |-> 2, w |-> 0]>>>>,pc |-> "clearing",rew |-> [none |-> TRUE],prune |-> TRUE,fstrat |-> [none |-> TRUE],ro |-> [none |-> TRUE],desc |-> [tr |-> <<<<[a |-> "", t |-> 2, w |-> 1]>>, <<[a |-> "stay", t |-> 2, w |-> 0]>>>>, n |-> 2, owner |-> <<"PR", "P2">>, reward |-> <<0, 0>>, final |-> <<1>>]])
    >>
----


=============================================================================

---- CONFIG MC_Solver_TTrace_1791151916 ----

INVARIANT
    _inv

CHECK_DEADLOCK
    \* CHECK_DEADLOCK off because of PROPERTY or INVARIANT above.
    FALSE

INIT
    _init

NEXT
    _next

CONSTANT
    _TETrace <- _trace

ALIAS
    _expression
=============================================================================
\* Generated on Sun Oct 04 22:12:05 UTC 2026