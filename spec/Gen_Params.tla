----------------------------- MODULE Gen_Params -----------------------------
(***************************************************************************)
(* Behaviour generation for C15 / C17: parameter sets around every         *)
(* boundary of the documented ranges, histories of generator calls, the    *)
(* whole-percent sweep for file names.                                     *)
(*   GEN_FAMILY = grid (K sampled grid points for check_input) | gridall   *)
(*              | main (K sampled grid points for the command line)        *)
(*              | hist (K call histories p, q, p)  | pct (the k/100 sweep) *)
(*              | freq (large boards)                                      *)
(***************************************************************************)
EXTENDS GeneratorRules, Json, IOUtils, SequencesExt, Randomization

K      == atoi(IOEnv.GEN_K)
Family == IOEnv.GEN_FAMILY
Out    == IOEnv.GEN_OUT

Num(n, d) == [k |-> "num", n |-> n, d |-> d]
NaN == [k |-> "nan", n |-> 0, d |-> 1]
\* -0.1, 0, 1e-6, 1/2, 1 - 1e-6, 1, 1.1, NaN
ProbGrid == {Num(-1, 10), Num(0, 1), Num(1, 1000000), Num(1, 2), Num(999999, 1000000), Num(1, 1), Num(11, 10), NaN}
P(seed, w, l, m, rb, lb, tb, lt, fd) ==
    [seed |-> seed, width |-> w, length |-> l, maxr |-> m, rb |-> rb, lb |-> lb, tb |-> tb, lt |-> lt, fd |-> fd]

Grid == {P(s, w, l, m, rb, lb, tb, lt, fd) :
            s \in {-1, 0, 1}, w \in {-1, 0, 1, 2}, l \in {-1, 0, 1, 2}, m \in {-1, 0, 1, 2},
            rb \in ProbGrid, lb \in ProbGrid, tb \in ProbGrid, lt \in ProbGrid, fd \in BOOLEAN}

Default == P(0, 3, 3, 6, Num(10, 100), Num(10, 100), Num(10, 100), Num(30, 100), FALSE)
\* one parameter at a time off its default: every boundary of every check, alone
OneOff ==
    {[Default EXCEPT !.seed = v] : v \in {-1, 0, 1, 999132423}}
    \cup {[Default EXCEPT !.width = v] : v \in {-1, 0, 1, 2}} \cup {[Default EXCEPT !.length = v] : v \in {-1, 0, 1, 2}}
    \cup {[Default EXCEPT !.maxr = v] : v \in {-1, 0, 1, 2, 64, 2000}}
    \cup {[Default EXCEPT !.rb = v] : v \in ProbGrid} \cup {[Default EXCEPT !.lb = v] : v \in ProbGrid}
    \cup {[Default EXCEPT !.tb = v] : v \in ProbGrid} \cup {[Default EXCEPT !.lt = v] : v \in ProbGrid}
    \cup {[Default EXCEPT !.fd = TRUE]}

\* two parameters at a time off their defaults: every pair of boundary values
Vals == [seed |-> {-1, 0, 1}, width |-> {-1, 0, 1, 2}, length |-> {-1, 0, 1, 2}, maxr |-> {-1, 0, 1, 2}]
TwoOff ==
    {[Default EXCEPT !.seed = a, !.width = b] : a \in Vals.seed, b \in Vals.width}
    \cup {[Default EXCEPT !.seed = a, !.length = b] : a \in Vals.seed, b \in Vals.length}
    \cup {[Default EXCEPT !.seed = a, !.maxr = b] : a \in Vals.seed, b \in Vals.maxr}
    \cup {[Default EXCEPT !.width = a, !.length = b] : a \in Vals.width, b \in Vals.length}
    \cup {[Default EXCEPT !.width = a, !.maxr = b] : a \in Vals.width, b \in Vals.maxr}
    \cup {[Default EXCEPT !.length = a, !.maxr = b] : a \in Vals.length, b \in Vals.maxr}
    \cup {[Default EXCEPT !.rb = a, !.lb = b] : a \in ProbGrid, b \in ProbGrid}
    \cup {[Default EXCEPT !.rb = a, !.tb = b] : a \in ProbGrid, b \in ProbGrid}
    \cup {[Default EXCEPT !.rb = a, !.lt = b] : a \in ProbGrid, b \in ProbGrid}
    \cup {[Default EXCEPT !.lb = a, !.tb = b] : a \in ProbGrid, b \in ProbGrid}
    \cup {[Default EXCEPT !.lb = a, !.lt = b] : a \in ProbGrid, b \in ProbGrid}
    \cup {[Default EXCEPT !.tb = a, !.lt = b] : a \in ProbGrid, b \in ProbGrid}
    \cup UNION {{[Default EXCEPT !.width = a, !.rb = b], [Default EXCEPT !.length = a, !.lt = b],
                 [Default EXCEPT !.seed = a - 1, !.tb = b], [Default EXCEPT !.maxr = a, !.lb = b]}
                : a \in {-1, 0, 1}, b \in ProbGrid}

\* (operators WITH a parameter: TLC evaluates a zero-arity constant definition once and caches it)
RandGridPoint(i) ==
    P(RandomElement({-1, 0, 1}), RandomElement({-1, 0, 1, 2}), RandomElement({-1, 0, 1, 2}), RandomElement({-1, 0, 1, 2}),
      RandomElement(ProbGrid), RandomElement(ProbGrid), RandomElement(ProbGrid), RandomElement(ProbGrid),
      RandomElement(BOOLEAN))
\* mostly-accepted points (so that the accepted side is exercised too)
RandAccepted(i) ==
    P(RandomElement(0..50), RandomElement(1..6), RandomElement(1..6), RandomElement({1, 2, 6, 64}),
      Num(RandomElement(1..99), 100), Num(RandomElement(1..99), 100), Num(RandomElement(1..99), 100),
      Num(RandomElement(1..99), 100), RandomElement(BOOLEAN))

\* seeds around 2^53 and 10^18: a float cannot tell neighbours apart, the file names must
BigSeeds == {[seedtxt |-> t] @@ [Default EXCEPT !.seed = 1] :
                t \in {"9007199254740992", "9007199254740993", "9007199254740995", "1000000000000000001", "4294967301"}}
PctSweep == BigSeeds \cup {[Default EXCEPT !.rb = Num(k, 100)] : k \in 1..99} \cup {[Default EXCEPT !.lb = Num(k, 100)] : k \in 1..99}
            \cup {[Default EXCEPT !.tb = Num(k, 100)] : k \in 1..99} \cup {[Default EXCEPT !.lt = Num(k, 100)] : k \in 1..99}
            \cup {[Default EXCEPT !.lt = Num(k, 100), !.fd = TRUE] : k \in {1, 3, 10, 25, 30, 31, 99}}

Cases ==
    CASE Family = "grid"    -> SetToSeq(OneOff \cup TwoOff) \o [i \in 1..K |-> TLCEval(RandGridPoint(i))]
      [] Family = "gridall" -> SetToSeq(Grid)
      [] Family = "main"    -> SetToSeq(OneOff) \o SetToSeq(RandomSubset(IF K < 60 THEN K ELSE 60, TwoOff)) \o [i \in 1..K |-> TLCEval(IF i % 2 = 0 THEN RandGridPoint(i) ELSE RandAccepted(i))]
      [] Family = "hist"    -> [i \in 1..K |-> LET p == TLCEval(RandAccepted(i))
                                                  q == [p EXCEPT !.seed = p.seed + 1]
                                              IN  <<p, q, p, [p EXCEPT !.fd = ~p.fd], p>>]
      [] Family = "pct"     -> SetToSeq(PctSweep)
      [] Family = "freq"    -> \* extreme frequencies need 10^4 tiles for a 6-sigma test to have any power
                               << P(7, 100, 100, 6, Num(10, 100), Num(10, 100), Num(10, 100), Num(4, 1000), FALSE),
                                  P(8, 100, 100, 6, Num(10, 100), Num(10, 100), Num(10, 100), Num(996, 1000), TRUE) >> \o
                               [i \in 1..K |-> P(i, 30, 30, 6, Num(10, 100), Num(10, 100), Num(10, 100),
                                                  RandomElement({Num(5, 100), Num(30, 100), Num(50, 100), Num(77, 100), Num(95, 100),
                                                                 Num(4, 1000), Num(996, 1000), Num(125, 1000)}), i % 2 = 0)]

ASSUME JsonSerialize(Out, Cases)
ASSUME PrintT(ToJson([family |-> Family, count |-> Len(Cases)]))
=============================================================================
