----------------------------- MODULE Gen_Graphs -----------------------------
(***************************************************************************)
(* Behaviour generation for C07: directed graphs as transition lists and    *)
(* sequences of final states (any order, repetitions allowed).              *)
(*   GEN_FAMILY = exh2 | exh3 | samp3 | samp4 | rand8 ; GEN_K ; GEN_OUT     *)
(***************************************************************************)
EXTENDS Integers, Sequences, FiniteSets, TLC, Json, IOUtils, SequencesExt

K      == atoi(IOEnv.GEN_K)
Family == IOEnv.GEN_FAMILY
Out    == IOEnv.GEN_OUT

Rows(n, m)   == UNION {[1..k -> 1..n] : k \in 0..m}            \* <= m edges per state
Graphs(n, m) == [1..n -> Rows(n, m)]
Finals(n, m) == UNION {[1..k -> 1..n] : k \in 1..m}            \* non-empty, repetitions allowed

Case(tl, f) == [tl |-> tl, finals |-> f]
Exh(n, me, mf) == {Case(tl, f) : tl \in Graphs(n, me), f \in Finals(n, mf)}

RandCase(n, me, mf) ==
    Case(TLCEval([s \in 1..n |-> RandomElement(Rows(n, me))]), RandomElement(Finals(n, mf)))

Cases ==
    CASE Family = "exh2"  -> SetToSeq(Exh(2, 2, 3))
      [] Family = "exh3"  -> SetToSeq(Exh(3, 2, 3))
      [] Family = "samp3" -> [i \in 1..K |-> TLCEval(RandCase(3, 2, 3))]
      [] Family = "samp4" -> [i \in 1..K |-> TLCEval(RandCase(4, 2, 3))]
      [] Family = "rand8" -> [i \in 1..K |-> TLCEval(RandCase(5 + (i % 4), 3, 3))]

ASSUME JsonSerialize(Out, Cases)
ASSUME PrintT(ToJson([family |-> Family, count |-> Len(Cases)]))
=============================================================================
