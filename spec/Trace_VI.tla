------------------------------ MODULE Trace_VI ------------------------------
(***************************************************************************)
(* Trace validation of the reachability value iteration, sweep by sweep    *)
(* (hook ReachSweep).  A session is [tid, g, sweeps, truncated]: sweeps[k] *)
(* is the vector the code held after its k-th sweep.  Each step performs   *)
(* VI!Sweep on the interval state and requires the recorded vector to lie  *)
(* inside the interval; at the end the number of sweeps must be one the    *)
(* stopping rule allows.  This is conformance of the ALGORITHM (in-place,  *)
(* index order, update formulas, stopping rule), beyond what C01 states    *)
(* about the result; it is reported separately and is not a verdict on any *)
(* listed property.                                                        *)
(***************************************************************************)
EXTENDS VI, Json, IOUtils

Sessions == JsonDeserialize(IOEnv.TRACE_FILE)
VARIABLES tid, fails
tvars == <<vvars, tid, fails>>
S == Sessions[tid]
ObsU(v) == v.i * U + v.f \div 10

Init == /\ tid \in DOMAIN Sessions /\ fails = {}
        /\ game = Sessions[tid].g /\ st = Start(Sessions[tid].g) /\ k = 0 /\ halted = FALSE

Step ==
    /\ ~halted /\ k < Len(S.sweeps)
    /\ LET nst == Sweep(game, st)
           obs == S.sweeps[k + 1]
           K   == ToString(k + 1)
       IN  /\ st' = nst
           /\ fails' = fails
                \cup {"VI.Bracket sweep=" \o K \o " s=" \o ToString(s) :
                         s \in {s \in 1..game.n : obs[s].k # "ok" \/ ObsU(obs[s]) < nst.lo[s] - 2
                                                  \/ ObsU(obs[s]) > nst.hi[s] + 2}}
                \cup {"VI.Zero sweep=" \o K \o " s=" \o ToString(s) :
                         s \in {s \in 1..game.n : obs[s].z # nst.zero[s]}}
                \cup (IF k >= 1 /\ MayStop(st) THEN {"VI.StopTooLate after sweep " \o ToString(k)} ELSE {})
    /\ k' = k + 1 /\ UNCHANGED <<game, halted, tid>>

Finish ==
    /\ ~halted /\ k = Len(S.sweeps)
    /\ fails' = fails \cup (IF ~S.truncated /\ k >= 1 /\ MustGoOn(st)
                            THEN {"VI.StopTooEarly after sweep " \o ToString(k)} ELSE {})
    /\ halted' = TRUE
    /\ PrintT(ToJson([tid |-> S.tid, fails |-> fails', notes |-> {"sweeps=" \o ToString(k)}]))
    /\ UNCHANGED <<game, st, k, tid>>

Next == Step \/ Finish
Spec == Init /\ [][Next]_tvars
=============================================================================
