--------------------------- MODULE Trace_Generator ---------------------------
(***************************************************************************)
(* Trace validation for C15 and C17.  A session is a sequence of events:   *)
(*   Check   p, ok, etype              roberta_generator.check_input(p)    *)
(*   GenCall p, ok, etype, board       roberta_generator.gen_rnd_board(p)  *)
(*   Main    p, rc, etype, before, after, keys, board                      *)
(*                                      python roberta_generator.py ...    *)
(*   Freq    p, k, n, board            a large board for the frequencies   *)
(* driven through the machine of module Generator (Gen / Refuse / Write).  *)
(***************************************************************************)
EXTENDS Generator, Json, IOUtils

Sessions == JsonDeserialize(IOEnv.TRACE_FILE)
VARIABLES tid, l, fails, notes, names
tvars == <<gvars, tid, l, fails, notes, names>>
S  == Sessions[tid]
Ev == S.events[l]
IsEvent(e) == l <= Len(S.events) /\ Ev.e = e /\ l' = l + 1 /\ tid' = tid
SeqToSet(q) == {q[i] : i \in DOMAIN q}

Init == GInit /\ tid \in DOMAIN Sessions /\ l = 1 /\ fails = {} /\ notes = {} /\ names = <<>>

\* check_input called directly
TraceCheck ==
    /\ IsEvent("Check")
    /\ fails' = fails \cup
         (IF ParamsOK(Ev.p)
          THEN (IF Ev.ok THEN {} ELSE {"C15.AcceptedIffParamsOK refused a documented parameter set: " \o Ev.etype})
          ELSE (IF ~Ev.ok /\ Ev.etype = "ValueError" THEN {}
                ELSE {"C15.RefusedValueError broken=" \o ToString(Broken(Ev.p)) \o " got=" \o
                      (IF Ev.ok THEN "accepted" ELSE Ev.etype)}))
    /\ notes' = notes \cup (IF ParamsOK(Ev.p) THEN {"C15.accepted"} ELSE {"C15.refused:" \o ToString(Broken(Ev.p))})
    /\ UNCHANGED <<gvars, names>>

\* Generator!Gen with the observed board
TraceGen ==
    /\ IsEvent("GenCall")
    /\ fails' = fails \cup
         (IF ~Ev.ok THEN {"C15.NoError gen_rnd_board raised " \o Ev.etype}
          ELSE BoardClauses(Ev.p, Ev.board)
               \cup (IF Ev.p \in DOMAIN memo /\ memo[Ev.p] # Ev.board THEN {"C15.Reproducible"} ELSE {}))
    /\ notes' = notes \cup (IF Ev.p \in DOMAIN memo THEN {"C15.repeated"} ELSE {})
                      \cup (IF Ev.p.fd THEN {"C15.forcedown"} ELSE {})
    /\ memo' = IF Ev.ok /\ ~(Ev.p \in DOMAIN memo) THEN memo @@ (Ev.p :> Ev.board) ELSE memo
    /\ UNCHANGED <<files, names>>

New == SeqToSet(Ev.after) \ SeqToSet(Ev.before)

\* Generator!Refuse or Generator!Write through the command line
TraceMain ==
    /\ IsEvent("Main")
    /\ fails' = fails \cup
         (IF ~ParamsOK(Ev.p)
          THEN (IF Ev.rc # 0 /\ Ev.etype = "ValueError" THEN {}
                ELSE {"C15.RefusedValueError (main) broken=" \o ToString(Broken(Ev.p)) \o " rc=" \o ToString(Ev.rc) \o " " \o Ev.etype})
               \cup (IF New = {} THEN {} ELSE {"C15.NothingWritten"})
          ELSE (IF Ev.rc = 0 THEN {} ELSE {"C15.AcceptedIffParamsOK (main) rc=" \o ToString(Ev.rc) \o " " \o Ev.etype})
               \cup (IF Ev.rc # 0 THEN {}
                     ELSE (IF Cardinality(New) = 1 THEN {} ELSE {"C17.Single"})
                          \cup (IF WholePercent(Ev.p) /\ New # {FileName(Ev.p)}
                                THEN {"C17.Name expected " \o FileName(Ev.p)} ELSE {})
                          \cup (IF WholePercent(Ev.p) /\ \E i \in DOMAIN names :
                                       names[i].file \in New /\ names[i].p # Ev.p
                                THEN {"C17.NoCollision"} ELSE {})
                          \cup (IF Ev.keys = <<"game_a", "game_b", "game_c">> THEN {} ELSE {"C11.Loads (main)"})
                          \cup BoardClauses(Ev.p, Ev.board)
                          \cup (IF Ev.p \in DOMAIN memo /\ memo[Ev.p] # Ev.board THEN {"C15.Reproducible (main)"} ELSE {})))
    /\ notes' = notes \cup (IF ParamsOK(Ev.p) THEN {"C17.named"} ELSE {"C15.refusedmain:" \o ToString(Broken(Ev.p))})
    /\ names' = IF ParamsOK(Ev.p) /\ Ev.rc = 0 /\ Cardinality(New) = 1
                THEN Append(names, [file |-> CHOOSE f \in New : TRUE, p |-> Ev.p]) ELSE names
    /\ memo' = IF ParamsOK(Ev.p) /\ Ev.rc = 0 /\ ~(Ev.p \in DOMAIN memo) THEN memo @@ (Ev.p :> Ev.board) ELSE memo
    /\ files' = files \cup New

\* the same parameters generated again in the same directory: still one loadable file
TraceMainAgain ==
    /\ IsEvent("MainAgain")
    /\ fails' = fails \cup
         (IF ~ParamsOK(Ev.p) THEN {}
          ELSE (IF Ev.rc = 0 THEN {} ELSE {"C11.Rerun rc=" \o ToString(Ev.rc) \o " " \o Ev.etype})
               \cup (IF Ev.rc = 0 /\ SeqToSet(Ev.after) # SeqToSet(Ev.before) THEN {"C17.Single (rerun)"} ELSE {})
               \cup (IF Ev.rc = 0 /\ Ev.keys # <<"game_a", "game_b", "game_c">> THEN {"C11.Loads (rerun)"} ELSE {})
               \cup (IF Ev.rc = 0 /\ Ev.p \in DOMAIN memo /\ memo[Ev.p] # Ev.board THEN {"C15.Reproducible (rerun)"} ELSE {}))
    /\ notes' = notes \cup {"C11.rerun"}
    /\ UNCHANGED <<gvars, names>>

TraceFreq ==
    /\ IsEvent("Freq")
    /\ fails' = fails \cup
         (IF ~Ev.ok THEN {"C15.NoError gen_rnd_board raised " \o Ev.etype}
          ELSE BoardClauses(Ev.p, Ev.board)
               \cup (IF FreqOK(CountLoose(Ev.board), Ev.p.width * Ev.p.length, Ev.p.lt) THEN {}
                     ELSE {"C15.Frequency loose=" \o ToString(CountLoose(Ev.board))}))
    /\ notes' = notes \cup {"C15.frequency"}
    /\ UNCHANGED <<gvars, names>>

Verdict ==
    /\ l = Len(S.events) + 1
    /\ PrintT(ToJson([tid |-> S.tid, fails |-> fails, notes |-> notes]))
    /\ l' = l + 1 /\ UNCHANGED <<gvars, tid, fails, notes, names>>

Next == TraceCheck \/ TraceGen \/ TraceMain \/ TraceMainAgain \/ TraceFreq \/ Verdict
Spec == Init /\ [][Next]_tvars
=============================================================================
