---------------------------- MODULE Gen_Malformed ----------------------------
(***************************************************************************)
(* Behaviour generation for C09: K well-formed base games, and for each    *)
(* every malformation of module Malformed (rule x position x value).       *)
(***************************************************************************)
EXTENDS Gen_Games, Malformed

Fig55 ==   \* the 8-state game of the repository's fixtures (figure 5.5), in spec encoding
    [n |-> 7, owner |-> <<P2, PR, PR, P1, PR, PR, PR>>, reward |-> <<0, 0, 100, 1, 0, 0, 0>>,
     tr |-> << <<Tr("beta", 0, 2), Tr("alfa", 0, 3)>>, <<Tr("", 1, 5), Tr("", 3, 4)>>,
               <<Tr("", 1, 6), Tr("", 1, 7)>>, <<Tr("delta", 0, 5), Tr("gamma", 0, 6)>>,
               <<Tr("", 1, 5)>>, <<Tr("", 1, 6)>>, <<Tr("", 1, 7)>> >>,
     final |-> <<6>>]

\* a chance state and a player state with the same single successor (written (1, k) and ("go", k)):
\* the malformation "action is the int 1" makes the two rows equal as Python values
RowTwin ==
    [n |-> 5, owner |-> <<PR, PR, P1, PR, PR>>, reward |-> <<0, 1, 2, 0, 0>>,
     tr |-> << <<Tr("", 1, 2), Tr("", 1, 3)>>, <<Tr("", 1, 5)>>, <<Tr("go", 0, 5)>>,
               <<Tr("", 1, 4)>>, <<Tr("", 1, 5)>> >>,
     final |-> <<5>>]

BasesRaw == [i \in 1..K |-> TLCEval(StopGame(3 + (i % 3)))]
\* solvable in both modes: stopping, initial state of positive value
Bases == <<Fig55, RowTwin>> \o SelectSeq(BasesRaw, LAMBDA g : IsStopping(g) /\ 1 \notin ZeroSet(g))

CasesOf(g) == LET q == SetToSeq(Malformations(g))
              IN  [i \in DOMAIN q |-> [rule |-> q[i].rule, where |-> q[i].where, tg |-> q[i].tg, base |-> g]]

RECURSIVE Flatten(_, _)
Flatten(qq, i) == IF i > Len(qq) THEN <<>> ELSE qq[i] \o Flatten(qq, i + 1)

AllCases == Flatten([b \in DOMAIN Bases |-> TLCEval(CasesOf(Bases[b]))], 1)

=============================================================================
