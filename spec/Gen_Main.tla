------------------------------ MODULE Gen_Main ------------------------------
(* Entry point of behaviour generation: evaluates the family named by      *)
(* GEN_FAMILY and writes it to GEN_OUT as a JSON array.                     *)
EXTENDS Gen_Games, Randomization

Pick(k, S) == IF k >= Cardinality(S) THEN S ELSE RandomSubset(k, S)
DescribeAll(fam, S) == LET q == SetToSeq(S) IN [i \in DOMAIN q |-> TLCEval(Describe(fam, q[i]))]

Games ==
    CASE Family = "rand" -> RandFamily
      [] Family = "stop" -> StopFamily
      [] Family = "dead" -> DescribeAll("dead", Pick(K, DeadGames))
      [] Family = "deadall" -> DescribeAll("dead", DeadGames)
      [] Family = "hist" -> HistFamily
      [] Family = "edit" -> EditFamily
      [] Family = "perm" -> PermFamily
      [] Family = "tiny" -> DescribeAll("tiny", Pick(K, TinyGames) \cup Pick(K, TinyChains) \cup TinySlow)
      [] Family = "nonabs" -> DescribeAll("nonabs", Pick(K, NonAbsGames))
      [] Family = "diag" -> DescribeAll("diag", Pick(K, DiagGames))
      [] Family = "samerow" -> DescribeAll("samerow", Pick(K, SameRowGames))
      [] Family = "loopdiag" -> DescribeAll("loopdiag", Pick(K, LoopDiagGames))
      [] Family = "slowrew" -> DescribeAll("slowrew", Pick(K, SlowRewGames))
      [] Family = "gap5" -> DescribeAll("gap5", Gap5Games)
      [] Family = "forced" -> DescribeAll("forced", Pick(K, ForcedGames))
      [] Family = "degen" -> DescribeAll("degen", DegenGames)
      [] Family = "jump1" -> DescribeAll("jump1", Pick(K, Jump1Games))
      [] Family = "order3" -> DescribeAll("order3", Order3Games)
      [] Family = "duplabel" -> DescribeAll("duplabel", DupLabelGames)
      [] Family = "minreachrank" -> DescribeAll("minreachrank", MinReachRankGames)
      [] Family = "finaldeadend" -> DescribeAll("finaldeadend", FinalDeadEndGames)
      [] Family = "keycollide" -> DescribeAll("keycollide", KeyCollideGames)
      [] Family = "zerow" -> DescribeAll("zerow", ZeroWGames)
      [] Family = "slow" -> DescribeAll("slow", Pick(K, SlowGames))
      [] Family = "bigrew" -> DescribeAll("bigrew", Pick(K, BigRewGames))
      [] Family = "ties" -> DescribeAll("ties", Pick(K, TieGames))
      [] Family = "tiesall" -> DescribeAll("ties", TieGames)

ASSUME JsonSerialize(Out, Games)
ASSUME PrintT(ToJson([family |-> Family, count |-> Len(Games)]))
=============================================================================
