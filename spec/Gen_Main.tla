------------------------------ MODULE Gen_Main ------------------------------
(* Entry point of behaviour generation: evaluates the family named by      *)
(* GEN_FAMILY and writes it to GEN_OUT as a JSON array.                     *)
EXTENDS Gen_Games, Randomization

DescribeAll(fam, S) == LET q == SetToSeq(S) IN [i \in DOMAIN q |-> TLCEval(Describe(fam, q[i]))]

Games ==
    CASE Family = "rand" -> RandFamily
      [] Family = "stop" -> StopFamily
      [] Family = "dead" -> DescribeAll("dead", RandomSubset(K, DeadGames))
      [] Family = "deadall" -> DescribeAll("dead", DeadGames)
      [] Family = "hist" -> HistFamily
      [] Family = "perm" -> PermFamily
      [] Family = "tiny" -> DescribeAll("tiny", RandomSubset(K, TinyGames))
      [] Family = "ties" -> DescribeAll("ties", RandomSubset(K, TieGames))
      [] Family = "tiesall" -> DescribeAll("ties", TieGames)

ASSUME JsonSerialize(Out, Games)
ASSUME PrintT(ToJson([family |-> Family, count |-> Len(Games)]))
=============================================================================
