--------------------------- MODULE Trace_Malformed ---------------------------
(***************************************************************************)
(* Trace validation for C09.  A session is one malformed description       *)
(* [tid, rule, where, tg, events]; events:                                 *)
(*   Direct  prune, k ("Return" | "Raise" | "Timeout"), etype              *)
(*   Batch   crashed, etype, keys, msgs, hasres   (run_games on            *)
(*           {good_first, bad, good_last})                                 *)
(* The machine: a malformed description can only take action Reject of     *)
(* module Solver (outcome ValueError, no result); the batch runner records *)
(* the failure and carries on.                                             *)
(***************************************************************************)
EXTENDS Malformed, Json, IOUtils

Sessions == JsonDeserialize(IOEnv.TRACE_FILE)
VARIABLES tid, l, fails
tvars == <<tid, l, fails>>
S  == Sessions[tid]
Ev == S.events[l]

Init == tid \in DOMAIN Sessions /\ l = 1 /\ fails = {}

Tag == " rule=" \o S.rule \o " at=" \o S.where

Sanity == IF RuleHolds(S.tg, S.rule) THEN {"Machinery.NotMalformed" \o Tag} ELSE {}

Direct ==
    /\ l <= Len(S.events) /\ Ev.e = "Direct"
    /\ fails' = fails \cup Sanity \cup
         \* how = fresh (a new object) | again (the same object a second time, other mode) |
         \*       turned (an object solved before its description was edited into this one)
         (IF Ev.k = "Raise" /\ Ev.etype = "ValueError" THEN {}
          ELSE IF Ev.k = "Return" THEN {"C09.NoResult solved a malformed game (" \o Ev.how \o ")" \o Tag}
          ELSE {"C09.Rejected (" \o Ev.how \o ") got=" \o Ev.k \o ":" \o Ev.etype \o Tag})
    /\ l' = l + 1 /\ UNCHANGED tid

ExpectedKeys == <<"good_first", "good_first_no_prune", "bad", "bad_no_prune", "good_last", "good_last_no_prune">>

Batch ==
    /\ l <= Len(S.events) /\ Ev.e = "Batch"
    /\ fails' = fails \cup
         (IF Ev.crashed THEN {"C09.BatchRecords crashed with " \o Ev.etype \o Tag}
          ELSE (IF Ev.keys = ExpectedKeys THEN {} ELSE {"C09.BatchRecords keys" \o Tag})
               \cup (IF Ev.keys # ExpectedKeys THEN {}
                     ELSE (IF Ev.msgs[3] = "error" /\ ~Ev.hasres[3] THEN {} ELSE {"C09.BatchRecords bad entry" \o Tag})
                          \cup (IF Ev.msgs[4] = "notsolved" /\ ~Ev.hasres[4] THEN {} ELSE {"C09.BatchRecords unpruned entry" \o Tag})
                          \cup (IF \A i \in {1, 2, 5, 6} : Ev.msgs[i] = "solved" /\ Ev.hasres[i] THEN {}
                                ELSE {"C09.BatchRecords other games not solved" \o Tag})))
    /\ l' = l + 1 /\ UNCHANGED tid

Verdict ==
    /\ l = Len(S.events) + 1
    /\ PrintT(ToJson([tid |-> S.tid, fails |-> fails, notes |-> {"C09." \o S.rule}]))
    /\ l' = l + 1 /\ UNCHANGED <<tid, fails>>

Next == Direct \/ Batch \/ Verdict
Spec == Init /\ [][Next]_tvars
=============================================================================
