SPECIFICATION TraceSpec
PROPERTY TraceDescFrozen
CHECK_DEADLOCK FALSE
