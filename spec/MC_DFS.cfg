SPECIFICATION Spec
CONSTANT NS = 3
INVARIANT ExactOnce
INVARIANT NoDuplicates
PROPERTY Terminates
CHECK_DEADLOCK FALSE
