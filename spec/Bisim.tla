------------------------------- MODULE Bisim -------------------------------
(***************************************************************************)
(* Probabilistic bisimilarity of two games (module Games encoding) from    *)
(* their initial states, with equal action labels, rewards, owners and     *)
(* final states, by partition refinement on the disjoint union of the      *)
(* parts reachable from the initial states.  Independent of numbering and  *)
(* of unreachable junk.                                                    *)
(***************************************************************************)
EXTENDS GraphOps

\* union states: <<1, s>> for the first game, <<2, s>> for the second
UStates(g, h) == ({1} \X FwdReach(SuccFn(g), 1)) \cup ({2} \X FwdReach(SuccFn(h), 1))
GameOf(g, h, u) == IF u[1] = 1 THEN g ELSE h

\* static part of the signature
Static(g, h, u) ==
    LET G == GameOf(g, h, u)  s == u[2]
    IN  <<G.owner[s], G.reward[s], s \in FinalSet(G)>>

\* dynamic part under partition part (function union state -> block id)
Dyn(g, h, part, u) ==
    LET G == GameOf(g, h, u)  s == u[2]  row == G.tr[s]
    IN  IF G.owner[s] = PR
        THEN LET W == SumW(row, Len(row))
                 blocks == {part[<<u[1], row[m].t>>] : m \in DOMAIN row}
             IN  {<<b, Rat(SumTo([m \in DOMAIN row |->
                                     IF part[<<u[1], row[m].t>>] = b THEN row[m].w ELSE 0], Len(row)), W)>>
                    : b \in blocks}
        ELSE {<<row[m].a, part[<<u[1], row[m].t>>]>> : m \in DOMAIN row}

RECURSIVE Refine(_, _, _, _)
Refine(g, h, U, part) ==
    LET sig == TLCEval([u \in U |-> <<part[u], Dyn(g, h, part, u)>>])
        \* the block of u is named by a canonical member with the same signature
        np  == TLCEval([u \in U |-> CHOOSE t \in {x \in U : sig[x] = sig[u]} : TRUE])
    IN  IF Cardinality({np[u] : u \in U}) = Cardinality({part[u] : u \in U}) THEN part   \* refinement only splits
        ELSE Refine(g, h, U, np)

Bisimilar(g, h) ==
    LET U  == UStates(g, h)
        st == TLCEval([u \in U |-> Static(g, h, u)])
        p0 == TLCEval([u \in U |-> CHOOSE t \in {x \in U : st[x] = st[u]} : TRUE])
        pf == Refine(g, h, U, p0)
    IN  pf[<<1, 1>>] = pf[<<2, 1>>]
=============================================================================
