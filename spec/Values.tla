------------------------------- MODULE Values -------------------------------
(***************************************************************************)
(* The textbook semantics, executable on small games: values of turn-based *)
(* stochastic games by enumeration of pure memoryless strategies (such     *)
(* games are determined in them) and exact solution of the induced Markov  *)
(* chains with Cramer's rule over the integers.                            *)
(***************************************************************************)
EXTENDS GraphOps, SequencesExt

Sorted(S) == SetToSortSeq(S, LAMBDA a, b : a < b)

MaxLen(g) == LET L == {Len(g.tr[s]) : s \in States(g)} IN CHOOSE m \in L : \A x \in L : x <= m

\* all pure memoryless choices for the states in S (each must have >= 1 transition)
ChoiceSets(g, S) == {c \in [S -> 1..MaxLen(g)] : \A s \in S : c[s] <= Len(g.tr[s])}
Movers(g, o, Dom) == {s \in Dom : g.owner[s] = o /\ Len(g.tr[s]) > 0}

\* the row of the Markov chain induced by choice c
Row(g, c, s) == IF g.owner[s] = PR \/ Len(g.tr[s]) = 0 THEN g.tr[s]
                ELSE <<Tr("", 1, g.tr[s][c[s]].t)>>
CSucc(g, c, s) == LET r == Row(g, c, s) IN {r[k].t : k \in DOMAIN r}

RECURSIVE SumWTo(_, _, _)
SumWTo(row, k, T) == IF k = 0 THEN 0
                     ELSE (IF row[k].t \in T THEN row[k].w ELSE 0) + SumWTo(row, k - 1, T)

\* states of Dom from which Target is reachable in the chain
RECURSIVE ChainBack(_, _, _, _)
ChainBack(g, c, Dom, X) ==
    LET Y == X \cup {s \in Dom \ X : CSucc(g, c, s) \cap X # {}}
    IN  IF Y = X THEN X ELSE ChainBack(g, c, Dom, Y)

\* Solve  D_s x_s - sum_{t in T} w(s,t) x_t = rhs[s]  for the states of T
\* (T a set); result: function T -> rational
LinSolve(g, c, T, rhs) ==
    LET Ts == Sorted(T)
        k  == Len(Ts)
        M  == TLCEval([i \in 1..k |-> [j \in 1..k |->
                 LET row == Row(g, c, Ts[i])
                 IN  (IF i = j THEN SumW(row, Len(row)) ELSE 0)
                       - SumWTo(row, Len(row), {Ts[j]})]])
        b  == TLCEval([i \in 1..k |-> rhs[Ts[i]]])
        x  == TLCEval(Cramer(M, b, k))
    IN  TLCEval([s \in T |-> x[CHOOSE i \in 1..k : Ts[i] = s]])

\* probability of ever visiting a final state in the chain of c, for the states
\* of a closed sub-arena Dom
MCReachOn(g, c, Dom) ==
    LET F   == FinalSet(g) \cap Dom
        Can == ChainBack(g, c, Dom, F)
        T   == Can \ F
        x   == LinSolve(g, c, T, [s \in T |-> LET row == Row(g, c, s)
                                               IN SumWTo(row, Len(row), F)])
    IN  TLCEval([s \in Dom |-> IF s \in F THEN ROne
                                ELSE IF s \in T THEN x[s] ELSE RZero])
MCReach(g, c) == MCReachOn(g, c, States(g))

\* TRUE iff every state of Dom reaches Term with probability 1 in the chain
ProperFor(g, c, Dom, Term) == ChainBack(g, c, Dom, Term \cap Dom) = Dom

\* expected number of steps until Term (only for proper c); function Dom -> rational
MCSteps(g, c, Dom, Term) ==
    LET T == Dom \ Term
        x == LinSolve(g, c, T, [s \in T |-> LET row == Row(g, c, s) IN SumW(row, Len(row))])
    IN  TLCEval([s \in Dom |-> IF s \in T THEN x[s] ELSE RZero])

\* expected total reward until absorption in a sink (Dom closed, stopping on Dom)
MCReward(g, c, Dom) ==
    LET T == Dom \ Sinks(g)
        x == LinSolve(g, c, T, [s \in T |-> LET row == Row(g, c, s)
                                            IN SumW(row, Len(row)) * g.reward[s]])
    IN  TLCEval([s \in Dom |-> IF s \in T THEN x[s] ELSE RZero])

-----------------------------------------------------------------------------
(* Game values *)

MaxMin(tab, Sg, Tg, s) == RMaxOf({RMinOf({tab[sg][tg][s] : tg \in Tg}) : sg \in Sg})

\* max-min probability of reaching a final state; function States -> rational
ReachValue(g) ==
    LET Sg  == ChoiceSets(g, Movers(g, P1, States(g)))
        Tg  == ChoiceSets(g, Movers(g, P2, States(g)))
        tab == TLCEval([sg \in Sg |-> [tg \in Tg |-> MCReach(g, sg @@ tg)]])
    IN  TLCEval([s \in States(g) |-> MaxMin(tab, Sg, Tg, s)])

\* amplification factor of the stopping rule (DESIGN section 5): per state the
\* largest expected number of steps to Term over all proper strategy pairs
StepBound(g, Dom, Term) ==
    LET Sg == ChoiceSets(g, Movers(g, P1, Dom))
        Tg == ChoiceSets(g, Movers(g, P2, Dom))
        PP == {c \in {sg @@ tg : sg \in Sg, tg \in Tg} : ProperFor(g, c, Dom, Term)}
        tab == TLCEval([c \in PP |-> MCSteps(g, c, Dom, Term)])
    IN  TLCEval([s \in Dom |-> IF PP = {} THEN RZero ELSE RMaxOf({tab[c][s] : c \in PP})])

ReachStepBound(g) == StepBound(g, States(g), FinalSet(g) \cup ZeroSet(g))

\* max-min expected total reward on a closed sub-arena Dom on which the game
\* is stopping; function Dom -> rational
RewardValue(g, Dom) ==
    LET Sg  == ChoiceSets(g, Movers(g, P1, Dom))
        Tg  == ChoiceSets(g, Movers(g, P2, Dom))
        tab == TLCEval([sg \in Sg |-> [tg \in Tg |-> MCReward(g, sg @@ tg, Dom)]])
    IN  TLCEval([s \in Dom |-> MaxMin(tab, Sg, Tg, s)])

RewardStepBound(g, Dom) == StepBound(g, Dom, Sinks(g) \cap Dom)

=============================================================================
