------------------------------- MODULE Values -------------------------------
(***************************************************************************)
(* The textbook semantics, executable on small games: values of turn-based *)
(* stochastic games by enumeration of pure memoryless strategies (such     *)
(* games are determined in them) and exact solution of the induced Markov  *)
(* chains with Cramer's rule over the integers.                            *)
(***************************************************************************)
EXTENDS GraphOps, SequencesExt

Sorted(S) == SetToSortSeq(S, LAMBDA a, b : a < b)

MaxLen(g) == LET L == {Len(g.tr[s]) : s \in States(g)} IN CHOOSE m \in L : \A x \in L : x <= m

\* all pure memoryless choices for the states in S (each must have >= 1 transition)
\* (transitions of one state with the same target are the same choice: only the
\* first of each target is enumerated)
Reps(g, s) == {j \in DOMAIN g.tr[s] : \A i \in 1..(j - 1) : g.tr[s][i].t # g.tr[s][j].t}
\* (built as a product, state by state: enumerating [S -> 1..MaxLen] and filtering is
\* exponential in the number of single-action states)
RECURSIVE ChoiceSets(_, _)
ChoiceSets(g, S) ==
    IF S = {} THEN {[x \in {} |-> 0]}
    ELSE LET s == CHOOSE s \in S : TRUE
         IN  {c @@ (s :> k) : c \in ChoiceSets(g, S \ {s}), k \in Reps(g, s)}
Movers(g, o, Dom) == {s \in Dom : g.owner[s] = o /\ Len(g.tr[s]) > 0}

\* the row of the Markov chain induced by choice c
Row(g, c, s) == IF g.owner[s] = PR \/ Len(g.tr[s]) = 0 THEN g.tr[s]
                ELSE <<Tr("", 1, g.tr[s][c[s]].t)>>
CSucc(g, c, s) == LET r == Row(g, c, s) IN {r[k].t : k \in {k \in DOMAIN r : r[k].w > 0}}

RECURSIVE SumWTo(_, _, _)
SumWTo(row, k, T) == IF k = 0 THEN 0
                     ELSE (IF row[k].t \in T THEN row[k].w ELSE 0) + SumWTo(row, k - 1, T)

\* states of Dom from which Target is reachable in the chain
RECURSIVE ChainBack(_, _, _, _)
ChainBack(g, c, Dom, X) ==
    LET Y == X \cup {s \in Dom \ X : CSucc(g, c, s) \cap X # {}}
    IN  IF Y = X THEN X ELSE ChainBack(g, c, Dom, Y)

\* Under a fixed choice c the player states are deterministic, so only the
\* probabilistic states of the transient set T are unknowns of the linear
\* system; a player state is followed along c to the first probabilistic or
\* non-transient state, accumulating cost on the way.  cyc: the walk never
\* leaves the player states (it then contributes nothing).
RECURSIVE Follow(_, _, _, _, _, _)
Follow(g, c, T, costOf, t, seen) ==
    IF t \notin T \/ g.owner[t] = PR THEN [end |-> t, cost |-> 0, cyc |-> FALSE]
    ELSE IF t \in seen THEN [end |-> t, cost |-> 0, cyc |-> TRUE]
    ELSE LET r == Follow(g, c, T, costOf, g.tr[t][c[t]].t, seen \cup {t})
         IN  [r EXCEPT !.cost = @ + costOf[t]]

RAddInt(x, k) == Rat(x[1] + k * x[2], x[2])

\* Values of the states of T in the chain of c, where
\*   own[s]    : what a probabilistic state of T earns per visit
\*   costOf[s] : what a player state of T earns per visit
\*   bnd[t]    : value of a state outside T
\* result: function T -> rational
LinSolve(g, c, T, own, costOf, bnd) ==
    LET Ps  == Sorted({s \in T : g.owner[s] = PR})
        k   == Len(Ps)
        fol == TLCEval([t \in States(g) |-> Follow(g, c, T, costOf, t, {})])
        M   == TLCEval([i \in 1..k |-> [j \in 1..k |->
                 LET row == g.tr[Ps[i]]
                 IN  (IF i = j THEN SumW(row, Len(row)) ELSE 0)
                       - SumTo([e \in DOMAIN row |->
                                  IF ~fol[row[e].t].cyc /\ fol[row[e].t].end = Ps[j]
                                  THEN row[e].w ELSE 0], Len(row))]])
        b   == TLCEval([i \in 1..k |->
                 LET row == g.tr[Ps[i]]
                 IN  SumW(row, Len(row)) * own[Ps[i]]
                     + SumTo([e \in DOMAIN row |->
                                LET f == fol[row[e].t]
                                IN  IF f.cyc THEN 0
                                    ELSE row[e].w * (f.cost + (IF f.end \in T THEN 0 ELSE bnd[f.end]))],
                             Len(row))])
        x   == TLCEval(Cramer(M, b, k))
        xv(u) == x[CHOOSE i \in 1..k : Ps[i] = u]
    IN  TLCEval([s \in T |->
            IF g.owner[s] = PR THEN xv(s)
            ELSE LET f == fol[s]
                 IN  IF f.cyc THEN RZero
                     ELSE IF f.end \in T THEN RAddInt(xv(f.end), f.cost)
                     ELSE Rat(f.cost + bnd[f.end], 1)])

Zeros(g) == [s \in States(g) |-> 0]

\* probability of ever visiting a final state in the chain of c, for the states
\* of a closed sub-arena Dom
MCReachOn(g, c, Dom) ==
    LET F   == FinalSet(g) \cap Dom
        Can == ChainBack(g, c, Dom, F)
        T   == Can \ F
        x   == LinSolve(g, c, T, Zeros(g), Zeros(g), [s \in States(g) |-> IF s \in F THEN 1 ELSE 0])
    IN  TLCEval([s \in Dom |-> IF s \in F THEN ROne
                                ELSE IF s \in T THEN x[s] ELSE RZero])
MCReach(g, c) == MCReachOn(g, c, States(g))

\* TRUE iff every state of Dom reaches Term with probability 1 in the chain
ProperFor(g, c, Dom, Term) == ChainBack(g, c, Dom, Term \cap Dom) = Dom

\* expected number of steps until Term (only for proper c); function Dom -> rational
MCSteps(g, c, Dom, Term) ==
    LET T == Dom \ Term
        x == LinSolve(g, c, T, [s \in States(g) |-> 1], [s \in States(g) |-> 1], Zeros(g))
    IN  TLCEval([s \in Dom |-> IF s \in T THEN x[s] ELSE RZero])

\* expected total reward until absorption in a sink (Dom closed, stopping on Dom)
MCReward(g, c, Dom) ==
    LET T == Dom \ Sinks(g)
        r == [s \in States(g) |-> g.reward[s]]
        x == LinSolve(g, c, T, r, r, Zeros(g))
        k == RScale(g)
    IN  TLCEval([s \in Dom |-> IF s \in T THEN (IF k = 1 THEN x[s] ELSE Rat(x[s][1], x[s][2] * k)) ELSE RZero])

-----------------------------------------------------------------------------
(* Game values *)

MaxMin(tab, Sg, Tg, s) == RMaxOf({RMinOf({tab[sg][tg][s] : tg \in Tg}) : sg \in Sg})

\* g with the states of A made absorbing (their choices no longer matter)
MakeAbsorbing(g, A) ==
    [g EXCEPT !.tr = [s \in 1..g.n |-> IF s \in A THEN <<Tr("", 1, s)>> ELSE g.tr[s]],
              !.owner = [s \in 1..g.n |-> IF s \in A THEN PR ELSE g.owner[s]]]

\* max-min probability of reaching a final state; function States -> rational.
\* Final states are worth 1 and the states of the zero set 0 whatever happens
\* behind them, so both are made absorbing before strategies are enumerated.
ReachValue(g) ==
    LET g0  == MakeAbsorbing(g, FinalSet(g) \cup ZeroSet(g))
        Sg  == ChoiceSets(g0, Movers(g0, P1, States(g)))
        Tg  == ChoiceSets(g0, Movers(g0, P2, States(g)))
        tab == TLCEval([sg \in Sg |-> [tg \in Tg |-> MCReach(g0, sg @@ tg)]])
    IN  TLCEval([s \in States(g) |-> MaxMin(tab, Sg, Tg, s)])

\* amplification factor of the stopping rule (DESIGN section 5): per state the
\* largest expected number of steps to Term over all proper strategy pairs
StepBound(g, Dom, Term) ==
    LET Sg == ChoiceSets(g, Movers(g, P1, Dom))
        Tg == ChoiceSets(g, Movers(g, P2, Dom))
        PP == {c \in {sg @@ tg : sg \in Sg, tg \in Tg} : ProperFor(g, c, Dom, Term)}
        tab == TLCEval([c \in PP |-> MCSteps(g, c, Dom, Term)])
    IN  TLCEval([s \in Dom |-> IF PP = {} THEN RZero ELSE RMaxOf({tab[c][s] : c \in PP})])

ReachStepBound(g) ==
    LET A == FinalSet(g) \cup ZeroSet(g) IN StepBound(MakeAbsorbing(g, A), States(g), A)

\* max-min expected total reward on a closed sub-arena Dom on which the game
\* is stopping; function Dom -> rational
RewardValue(g, Dom) ==
    LET Sg  == ChoiceSets(g, Movers(g, P1, Dom))
        Tg  == ChoiceSets(g, Movers(g, P2, Dom))
        tab == TLCEval([sg \in Sg |-> [tg \in Tg |-> MCReward(g, sg @@ tg, Dom)]])
    IN  TLCEval([s \in Dom |-> MaxMin(tab, Sg, Tg, s)])

RewardStepBound(g, Dom) == StepBound(g, Dom, Sinks(g) \cap Dom)

=============================================================================
