------------------------------ MODULE Gen_Batch ------------------------------
(***************************************************************************)
(* Behaviour generation for C12 / C16: ordered dictionaries of games.      *)
(* Pool: solvable games with and without dead branches, an unsolvable      *)
(* one, malformed ones (tagged encoding of module Malformed); a dictionary *)
(* is an ordered selection of <= 3 pool entries under names with           *)
(* underscores and digits.  GEN_FAMILY = all | sample                      *)
(***************************************************************************)
EXTENDS Gen_Malformed, Randomization

Simple ==
    [n |-> 3, owner |-> <<PR, PR, PR>>, reward |-> <<2, 0, 0>>,
     tr |-> << <<Tr("", 1, 2), Tr("", 2, 3)>>, <<Tr("", 1, 2)>>, <<Tr("", 1, 3)>> >>, final |-> <<3>>]
DeadHeavy ==
    [n |-> 5, owner |-> <<P1, PR, PR, PR, PR>>, reward |-> <<1, 2, 0, 0, 0>>,
     tr |-> << <<Tr("go", 0, 2), Tr("quit", 0, 4)>>,
               <<Tr("", 1, 4), Tr("", 1, 2), Tr("", 1, 3), Tr("", 2, 5)>>,
               <<Tr("", 1, 4)>>, <<Tr("", 1, 4)>>, <<Tr("", 1, 5)>> >>, final |-> <<5>>]
Unsolvable ==
    [n |-> 3, owner |-> <<P2, PR, PR>>, reward |-> <<1, 0, 0>>,
     tr |-> << <<Tr("a", 0, 2), Tr("b", 0, 3)>>, <<Tr("", 1, 2)>>, <<Tr("", 1, 3)>> >>, final |-> <<3>>]

\* the same graph with different final sets (and different sets of states reaching them)
TwinGraph == << <<Tr("", 1, 2), Tr("", 1, 3)>>, <<Tr("", 1, 4), Tr("", 1, 5)>>, <<Tr("", 1, 3)>>,
                <<Tr("", 1, 4)>>, <<Tr("", 1, 5)>> >>
TwinA == [n |-> 5, owner |-> <<PR, PR, PR, PR, PR>>, reward |-> <<1, 2, 0, 0, 0>>, tr |-> TwinGraph, final |-> <<4>>]
TwinB == [n |-> 5, owner |-> <<PR, PR, PR, PR, PR>>, reward |-> <<1, 2, 0, 0, 0>>, tr |-> TwinGraph, final |-> <<3>>]

\* a reachability probability of 1e-13 (two hops): a legal result value far below 1e-12
Tiny13 == LET t == Tagged(Simple)
          IN  [t EXCEPT !.transition_list =
                  PList(<< PList(<<PTuple(<<PFloat(1, 10000000), PInt(1)>>), PTuple(<<PFloat(9999999, 10000000), PInt(2)>>)>>),
                           PList(<<PTuple(<<PInt(1), PInt(1)>>)>>),
                           PList(<<PTuple(<<PInt(1), PInt(2)>>)>>) >>),
                   !.final_states = PList(<<PInt(1)>>)]
Tiny13b == [Tiny13 EXCEPT !.transition_list =
                  PList(<< PList(<<PTuple(<<PFloat(1, 10000000), PInt(1)>>), PTuple(<<PFloat(9999999, 10000000), PInt(2)>>)>>),
                           PList(<<PTuple(<<PFloat(1, 1000000), PInt(3)>>), PTuple(<<PFloat(999999, 1000000), PInt(2)>>)>>),
                           PList(<<PTuple(<<PInt(1), PInt(2)>>)>>),
                           PList(<<PTuple(<<PInt(1), PInt(3)>>)>>) >>),
                   !.rewards = PList(<<PInt(2), PInt(0), PInt(0), PInt(0)>>),
                   !.players = PList(<<PStr("Probabilistic"), PStr("Probabilistic"), PStr("Probabilistic"), PStr("Probabilistic")>>),
                   !.final_states = PList(<<PInt(3)>>)]

\* every state reaches the goal with positive probability, and states 4, 5 are orphans
\* (nothing points to them): pruning clears them, the unpruned run must not
Orphan ==
    [n |-> 5, owner |-> <<P1, PR, PR, PR, P2>>, reward |-> <<1, 2, 0, 6, 3>>,
     tr |-> << <<Tr("x", 0, 2), Tr("y", 0, 3)>>, <<Tr("", 1, 3), Tr("", 1, 2)>>, <<Tr("", 1, 3)>>,
               <<Tr("", 1, 5)>>, <<Tr("u", 0, 3), Tr("v", 0, 2)>> >>, final |-> <<3>>]

\* two parameter variants of one board: same states, same transitions at the Player 2 state,
\* different probabilities downstream (so a different reachability-minimising action)
Variant(pa, pb) ==
    [n |-> 5, owner |-> <<P2, PR, PR, PR, PR>>, reward |-> <<0, 2, 5, 0, 0>>,
     tr |-> << <<Tr("a", 0, 2), Tr("b", 0, 3)>>, <<Tr("", pa, 5), Tr("", 4 - pa, 4)>>,
               <<Tr("", pb, 5), Tr("", 4 - pb, 4)>>, <<Tr("", 1, 4)>>, <<Tr("", 1, 5)>> >>, final |-> <<5>>]

\* player states that pruning leaves without any action (their reachability strategy lists every
\* action, their final strategy is empty): 2 is a dead Player 1 state, 3 a dead Player 2 state
DeadPlayers ==
    [n |-> 6, owner |-> <<PR, P1, P2, PR, PR, PR>>, reward |-> <<1, 2, 0, 3, 0, 0>>,
     tr |-> << <<Tr("", 1, 2), Tr("", 1, 3), Tr("", 2, 4)>>, <<Tr("construe", 0, 5), Tr("falsework", 0, 5)>>, <<Tr("nullify", 0, 2)>>,
               <<Tr("", 1, 6)>>, <<Tr("", 1, 5)>>, <<Tr("", 1, 6)>> >>, final |-> <<6>>]

Pool == << [kind |-> "ok",        tg |-> Tagged(Simple)],
           [kind |-> "okdead",    tg |-> Tagged(DeadPlayers)],
           [kind |-> "ok",        tg |-> Tagged(Orphan)],
           [kind |-> "ok",        tg |-> Tiny13b],
           [kind |-> "ok",        tg |-> Tagged(TwinA)],
           [kind |-> "ok",        tg |-> Tagged(TwinB)],
           [kind |-> "okdead",    tg |-> Tagged(Fig55)],
           [kind |-> "okdead",    tg |-> Tagged(DeadHeavy)],
           [kind |-> "nosol",     tg |-> Tagged(Unsolvable)],
           [kind |-> "malformed", tg |-> SetSlot(Tagged(Fig55), 4, 2, 2, PInt(7))],
           [kind |-> "malformed", tg |-> SetRow(Tagged(Simple), 2, PNone)],
           \* a row that is a truthy object without a length
           [kind |-> "malformed", tg |-> SetRow(Tagged(Simple), 1, PInt(2))],
           \* no countable transition at all; no final state at all
           [kind |-> "malformed", tg |-> [Tagged(Simple) EXCEPT !.transition_list = PList(<<PList(<<>>), PNone, PList(<<>>)>>)]],
           [kind |-> "malformed", tg |-> [Tagged(Simple) EXCEPT !.final_states = PList(<<>>)]],
           \* several final states, only one of them out of range (either position)
           [kind |-> "malformed", tg |-> [Tagged(Simple) EXCEPT !.final_states = PList(<<PInt(2), PInt(7)>>)]],
           [kind |-> "malformed", tg |-> [Tagged(DeadHeavy) EXCEPT !.final_states = PList(<<PInt(-1), PInt(4)>>)]],
           \* successor index exactly n (one past the last state) on a state that is swept
           [kind |-> "malformed", tg |-> SetSlot(Tagged(Simple), 1, 1, 2, PInt(3))] >>

NameSets == { <<"game_a", "game_b", "game_c">>, <<"g1", "x_2", "robot_40_w5">>,
              <<"b", "a", "a_b_1">>,
              \* names that contain the JSON words true / false / null
              <<"nullable_coin_2", "construe", "falsework_1">> }

\* input file names: underscores, digits, and stems ending in letters of ".py"
FileStems == <<"in_", "robot_1_w2_l", "paper_games_", "x">>
FileTails == <<"_v2", "_copy", "", "_easy", "_step_up", "p", "_7y">>

Selections == UNION {{q \in [1..k -> DOMAIN Pool] : \A i, j \in 1..k : i # j => q[i] # q[j]} : k \in 1..3}

Dict(sel, names) == [i \in DOMAIN sel |-> [name |-> names[i], kind |-> Pool[sel[i]].kind, tg |-> Pool[sel[i]].tg]]

AllDicts == {Dict(sel, names) : sel \in Selections, names \in NameSets}
\* the key-scheme collision (K2 of DESIGN section 8)
Collision == << [name |-> "x", kind |-> "ok", tg |-> Tagged(Simple)],
                [name |-> "x_no_prune", kind |-> "okdead", tg |-> Tagged(DeadHeavy)] >>

\* always included: games that share their graph but not their goal, in both orders
\* descriptions that carry a prune_states key of their own (a legal constructor argument,
\* which the runner must override in both passes)
OwnFlag == { << [name |-> "says_unpruned", kind |-> "okdead", tg |-> Tagged(DeadHeavy), ps |-> "false"],
                [name |-> "says_pruned", kind |-> "okdead", tg |-> Tagged(Fig55), ps |-> "true"] >>,
             << [name |-> "hopeless_says_unpruned", kind |-> "nosol", tg |-> Tagged(Unsolvable), ps |-> "false"],
                [name |-> "plain", kind |-> "ok", tg |-> Tagged(Simple), ps |-> "none"] >> }

Twins == { << [name |-> "v13", kind |-> "ok", tg |-> Tagged(Variant(1, 3))], [name |-> "v31", kind |-> "ok", tg |-> Tagged(Variant(3, 1))] >>,
           << [name |-> "v31", kind |-> "ok", tg |-> Tagged(Variant(3, 1))], [name |-> "simple", kind |-> "ok", tg |-> Tagged(Simple)],
              [name |-> "v13", kind |-> "ok", tg |-> Tagged(Variant(1, 3))] >>,
           << [name |-> "to4", kind |-> "ok", tg |-> Tagged(TwinA)], [name |-> "to3", kind |-> "ok", tg |-> Tagged(TwinB)] >>,
           << [name |-> "to3", kind |-> "ok", tg |-> Tagged(TwinB)], [name |-> "to4", kind |-> "ok", tg |-> Tagged(TwinA)] >> }

\* results at scale: counts and iteration numbers of four and five digits (1202 states, 2401
\* transitions; tens of thousands of sweeps), numbers that print in exponent notation
Fan(m) == [n |-> m + 2, owner |-> [s \in 1..(m + 2) |-> PR], reward |-> [s \in 1..(m + 2) |-> IF s = 1 THEN 1 ELSE 0],
           tr |-> [s \in 1..(m + 2) |-> IF s = 1 THEN [k \in 1..m |-> Tr("", 1, k + 1)] ELSE <<Tr("", 1, m + 2)>>],
           final |-> <<m + 2>>]
Slow2000 == [n |-> 3, owner |-> <<PR, PR, PR>>, reward |-> <<1, 0, 0>>,
             tr |-> << <<Tr("", 1998, 1), Tr("", 1, 2), Tr("", 1, 3)>>, <<Tr("", 1, 2)>>, <<Tr("", 1, 3)>> >>, final |-> <<3>>]
TwinEdges(o) ==
    [n |-> 5, owner |-> <<o, PR, PR, PR, PR>>, reward |-> <<0, 3, 1, 0, 0>>,
     tr |-> << IF o = P1 THEN <<Tr("go", 0, 2), Tr("go", 0, 3), Tr("stay", 0, 4)>> ELSE <<Tr("go", 0, 2), Tr("go", 0, 3)>>,
               <<Tr("", 1, 5)>>, <<Tr("", 1, 5)>>, <<Tr("", 1, 4)>>, <<Tr("", 1, 5)>> >>, final |-> <<5>>]
SureOrphan(o) ==
    [n |-> 3, owner |-> <<PR, PR, o>>, reward |-> <<1, 0, 5>>,
     tr |-> << <<Tr("", 1, 2)>>, <<Tr("", 1, 2)>>,
               IF o = PR THEN <<Tr("", 1, 2)>> ELSE <<Tr("on", 0, 2), Tr("back", 0, 1)>> >>, final |-> <<2>>]
Scale == { << [name |-> "slow_2000", kind |-> "ok", tg |-> Tagged(Slow2000)],
              [name |-> "fan_1200", kind |-> "ok", tg |-> Tagged(Fan(1200))],
              [name |-> "tiny", kind |-> "ok", tg |-> Tiny13b] >>,
           << [name |-> "dead_players", kind |-> "okdead", tg |-> Tagged(DeadPlayers)],
              [name |-> "orphan_1", kind |-> "ok", tg |-> Tagged(Orphan)] >>,
           \* one action name on two transitions (legal: names need only be strings): the
           \* reachability strategy lists the name twice, the final strategy once, so the two
           \* lists differ although they hold the same names
           << [name |-> "twin_edges_4", kind |-> "ok", tg |-> Tagged(TwinEdges(P1))],
              [name |-> "twin_edges_p2", kind |-> "ok", tg |-> Tagged(TwinEdges(P2))] >>,
           \* every state reaches the goal surely (all probabilities exactly 1), and state 3 is
           \* an orphan with a reward: the pruned run clears it, the unpruned run must not
           << [name |-> "sure_orphan", kind |-> "ok", tg |-> Tagged(SureOrphan(PR))],
              [name |-> "sure_orphan_p2", kind |-> "ok", tg |-> Tagged(SureOrphan(P2))] >> }

BatchCases ==
    LET base == (IF Family = "all" THEN AllDicts ELSE RandomSubset(K, AllDicts)) \cup Twins \cup OwnFlag \cup Scale
        q == SetToSeq(base)
    IN  [i \in 1..(Len(q) + 3) |->
            IF i > Len(q) + 1 THEN [games |-> <<>>, file |-> IF i = Len(q) + 2 THEN "empty_0" ELSE "no_games_yet"] ELSE
            IF i <= Len(q) THEN [games |-> q[i], file |-> FileStems[1 + (i % Len(FileStems))] \o ToString(i % 7)
                                                             \o FileTails[1 + (i % Len(FileTails))]]
            ELSE [games |-> Collision, file |-> "collision_1"]]

ASSUME JsonSerialize(Out, BatchCases)
ASSUME PrintT(ToJson([family |-> "batch", count |-> Len(BatchCases)]))
=============================================================================
