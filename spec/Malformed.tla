----------------------------- MODULE Malformed -----------------------------
(***************************************************************************)
(* C09: game descriptions as Python would see them, including ill-typed    *)
(* values, the documented well-formedness rules as named predicates over   *)
(* that encoding, and every way of breaking one rule at one position.      *)
(*                                                                         *)
(* A Python value is a record [ty, v, d, s, items]:                        *)
(*   int (v)  float (v/d)  str (s)  none  tuple (items)  list (items)      *)
(* Indices inside these values are Python's (0-based).                     *)
(***************************************************************************)
EXTENDS Games

PV(ty, v, d, s, items) == [ty |-> ty, v |-> v, d |-> d, s |-> s, items |-> items]
PInt(k)      == PV("int", k, 1, "", <<>>)
PFloat(n, d) == PV("float", n, d, "", <<>>)
PStr(x)      == PV("str", 0, 1, x, <<>>)
PNone        == PV("none", 0, 1, "", <<>>)
PTuple(q)    == PV("tuple", 0, 1, "", q)
PList(q)     == PV("list", 0, 1, "", q)

OwnerName(o) == CASE o = P1 -> "Player 1" [] o = P2 -> "Player 2" [] o = PR -> "Probabilistic"

\* the tagged form of a well-formed description
Tagged(g) ==
    [rewards |-> PList([i \in 1..g.n |-> PInt(g.reward[i])]),
     players |-> PList([i \in 1..g.n |-> PStr(OwnerName(g.owner[i]))]),
     transition_list |-> PList([s \in 1..g.n |->
         LET W == TotalW(g, s) IN          \* (once per state: rows may have a thousand entries)
         PList([k \in DOMAIN g.tr[s] |->
            \* probability 1 is written as the int 1, the way the repository's inputs do: (1, 6)
            PTuple(<<IF g.owner[s] = PR
                     THEN (IF g.tr[s][k].w = W THEN PInt(1) ELSE PFloat(g.tr[s][k].w, W))
                     ELSE PStr(g.tr[s][k].a),
                     PInt(g.tr[s][k].t - 1)>>)])]),
     final_states |-> PList([i \in DOMAIN g.final |-> PInt(g.final[i] - 1)])]

-----------------------------------------------------------------------------
(* The documented rules.  n is the number of players.                      *)
NT(d) == Len(d.players.items)
IsNum(x) == x.ty \in {"int", "float"}

LenTr(d)   == Len(d.transition_list.items) = NT(d)
LenRew(d)  == Len(d.rewards.items) = NT(d)
RewNonNeg(d) == \A i \in DOMAIN d.rewards.items : IsNum(d.rewards.items[i]) /\ d.rewards.items[i].v >= 0
FinalNonEmpty(d) == Len(d.final_states.items) >= 1
FinalRange(d) == \A i \in DOMAIN d.final_states.items :
                    LET f == d.final_states.items[i] IN f.ty = "int" /\ f.v >= 0 /\ f.v < NT(d)
OwnerKnown(d) == \A i \in DOMAIN d.players.items :
                    d.players.items[i].ty = "str" /\ d.players.items[i].s \in {"Player 1", "Player 2", "Probabilistic"}
RowsOf(d) == d.transition_list.items
HasTransitions(d) == \A s \in DOMAIN RowsOf(d) : RowsOf(d)[s].ty = "list" => Len(RowsOf(d)[s].items) >= 1
RowIsList(d) == \A s \in DOMAIN RowsOf(d) : RowsOf(d)[s].ty = "list"
TupleShape(d) == \A s \in DOMAIN RowsOf(d) : RowsOf(d)[s].ty = "list" =>
                    \A k \in DOMAIN RowsOf(d)[s].items :
                        LET e == RowsOf(d)[s].items[k] IN e.ty = "tuple" /\ Len(e.items) = 2
IsPlayerAt(d, s) == s \in DOMAIN d.players.items /\ d.players.items[s].s \in {"Player 1", "Player 2"}
IsProbAt(d, s)   == s \in DOMAIN d.players.items /\ d.players.items[s].s = "Probabilistic"
Slots(d) == {<<s, k>> : s \in DOMAIN RowsOf(d), k \in 1..10} \* filtered below
GoodTuple(d, s, k) == RowsOf(d)[s].ty = "list" /\ k \in DOMAIN RowsOf(d)[s].items
                      /\ RowsOf(d)[s].items[k].ty = "tuple" /\ Len(RowsOf(d)[s].items[k].items) = 2
ActionIsStr(d) == \A sk \in Slots(d) : (GoodTuple(d, sk[1], sk[2]) /\ IsPlayerAt(d, sk[1]))
                      => RowsOf(d)[sk[1]].items[sk[2]].items[1].ty = "str"
ProbIsNum(d)   == \A sk \in Slots(d) : (GoodTuple(d, sk[1], sk[2]) /\ IsProbAt(d, sk[1]))
                      => IsNum(RowsOf(d)[sk[1]].items[sk[2]].items[1])
SuccIsInt(d)   == \A sk \in Slots(d) : GoodTuple(d, sk[1], sk[2])
                      => RowsOf(d)[sk[1]].items[sk[2]].items[2].ty = "int"
SuccRange(d)   == \A sk \in Slots(d) : (GoodTuple(d, sk[1], sk[2]) /\ RowsOf(d)[sk[1]].items[sk[2]].items[2].ty = "int")
                      => LET t == RowsOf(d)[sk[1]].items[sk[2]].items[2].v IN t >= 0 /\ t < NT(d)

RuleHolds(d, r) ==
    CASE r = "LenTr" -> LenTr(d)            [] r = "LenRew" -> LenRew(d)
      [] r = "RewNonNeg" -> RewNonNeg(d)    [] r = "FinalNonEmpty" -> FinalNonEmpty(d)
      [] r = "FinalRange" -> FinalRange(d)  [] r = "OwnerKnown" -> OwnerKnown(d)
      [] r = "HasTransitions" -> HasTransitions(d) /\ RowIsList(d)
      [] r = "TupleShape" -> TupleShape(d) /\ RowIsList(d)
      [] r = "ActionIsStr" -> ActionIsStr(d) [] r = "ProbIsNum" -> ProbIsNum(d)
      [] r = "SuccIsInt" -> SuccIsInt(d)     [] r = "SuccRange" -> SuccRange(d)

Rules == {"LenTr", "LenRew", "RewNonNeg", "FinalNonEmpty", "FinalRange", "OwnerKnown", "HasTransitions",
          "TupleShape", "ActionIsStr", "ProbIsNum", "SuccIsInt", "SuccRange"}
WellFormedT(d) == \A r \in Rules : RuleHolds(d, r)

-----------------------------------------------------------------------------
(* Breaking one rule at one position *)
SetItem(pl, i, x) == [pl EXCEPT !.items = [@ EXCEPT ![i] = x]]
DropLast(pl) == [pl EXCEPT !.items = SubSeq(@, 1, Len(@) - 1)]
AddLast(pl, x) == [pl EXCEPT !.items = Append(@, x)]
SetRow(d, s, row) == [d EXCEPT !.transition_list = SetItem(@, s, row)]
SetTrans(d, s, k, e) == SetRow(d, s, SetItem(RowsOf(d)[s], k, e))
SetSlot(d, s, k, slot, x) == SetTrans(d, s, k, SetItem(RowsOf(d)[s].items[k], slot, x))
TrPos(d) == {<<s, k>> : s \in DOMAIN RowsOf(d), k \in 1..10} \cap
            {sk \in (DOMAIN RowsOf(d)) \X (1..10) : sk[2] \in DOMAIN RowsOf(d)[sk[1]].items}

M(rule, where, d) == [rule |-> rule, where |-> where, tg |-> d]

Malformations(g) ==
    LET d == Tagged(g)
        n == g.n
        someTr == PTuple(<<PStr("a"), PInt(0)>>)
    IN
    {M("LenTr", "short", [d EXCEPT !.transition_list = DropLast(@)]),
     M("LenTr", "long", [d EXCEPT !.transition_list = AddLast(@, PList(<<PTuple(<<PFloat(1, 1), PInt(0)>>)>>))]),
     M("LenRew", "short", [d EXCEPT !.rewards = DropLast(@)]),
     M("LenRew", "long", [d EXCEPT !.rewards = AddLast(@, PInt(0))]),
     M("FinalNonEmpty", "empty", [d EXCEPT !.final_states = PList(<<>>)])}
    \cup {M("RewNonNeg", ToString(i) \o ":" \o ToString(v), [d EXCEPT !.rewards = SetItem(@, i, PInt(v))])
            : i \in 1..n, v \in {-1, -7}}
    \cup {M("RewNonNeg", ToString(i) \o ":-1/2", [d EXCEPT !.rewards = SetItem(@, i, PFloat(-1, 2))]) : i \in 1..n}
    \cup {M("OwnerKnown", ToString(i) \o ":" \o nm, [d EXCEPT !.players = SetItem(@, i, PStr(nm))])
            : i \in 1..n, nm \in {"Player 3", "player 1", "", "Probabilistic "}}
    \cup {M("FinalRange", ToString(i) \o ":" \o ToString(v), [d EXCEPT !.final_states = SetItem(@, i, PInt(v))])
            : i \in DOMAIN g.final, v \in {n, -1, n + 1, -n}}
    \cup {M("FinalRange", "extra:" \o ToString(v), [d EXCEPT !.final_states = AddLast(@, PInt(v))])
            : v \in {n, -1}}
    \cup {M("HasTransitions", ToString(s) \o ":[]", SetRow(d, s, PList(<<>>))) : s \in 1..n}
    \cup {M("HasTransitions", ToString(s) \o ":None", SetRow(d, s, PNone)) : s \in 1..n}
    \cup {M("TupleShape", ToString(s) \o ":rowtuple", SetRow(d, s, PTuple(RowsOf(d)[s].items))) : s \in 1..n}
    \cup {M("TupleShape", ToString(s) \o ":rowstr", SetRow(d, s, PStr("ab"))) : s \in 1..n}
    \* rows that are numbers: truthy or falsy objects without a length
    \cup {M("TupleShape", ToString(s) \o ":rowint", SetRow(d, s, PInt(3))) : s \in 1..n}
    \cup {M("TupleShape", ToString(s) \o ":rowfloat", SetRow(d, s, PFloat(3, 2))) : s \in 1..n}
    \cup {M("TupleShape", ToString(s) \o ":rowzero", SetRow(d, s, PInt(0))) : s \in 1..n}
    \cup UNION {
            {M("TupleShape", ToString(sk[1]) \o "," \o ToString(sk[2]) \o ":" \o x.ty \o ToString(Len(x.items)),
               SetTrans(d, sk[1], sk[2], x))
               : x \in {PList(RowsOf(d)[sk[1]].items[sk[2]].items),
                        PTuple(Append(RowsOf(d)[sk[1]].items[sk[2]].items, PInt(0))),
                        PTuple(<<RowsOf(d)[sk[1]].items[sk[2]].items[1]>>),
                        PInt(0), PNone, PStr("ab")}}
            : sk \in TrPos(d)}
    \cup {M("ActionIsStr", ToString(sk[1]) \o "," \o ToString(sk[2]) \o ":" \o x.ty, SetSlot(d, sk[1], sk[2], 1, x))
            : sk \in {sk \in TrPos(d) : g.owner[sk[1]] # PR},
              x \in {PInt(1), PNone, PFloat(1, 2), PTuple(<<PStr("a")>>)}}
    \cup {M("ProbIsNum", ToString(sk[1]) \o "," \o ToString(sk[2]) \o ":" \o x.ty, SetSlot(d, sk[1], sk[2], 1, x))
            : sk \in {sk \in TrPos(d) : g.owner[sk[1]] = PR},
              x \in {PStr("0.5"), PNone, PTuple(<<PFloat(1, 2)>>)}}
    \cup {M("SuccIsInt", ToString(sk[1]) \o "," \o ToString(sk[2]) \o ":" \o x.ty, SetSlot(d, sk[1], sk[2], 2, x))
            : sk \in TrPos(d), x \in {PFloat(1, 1), PStr("1"), PNone}}
    \cup {M("SuccRange", ToString(sk[1]) \o "," \o ToString(sk[2]) \o ":" \o ToString(v), SetSlot(d, sk[1], sk[2], 2, PInt(v)))
            : sk \in TrPos(d), v \in {n, -1, n + 3, -n}}

\* every generated malformation breaks the rule it is filed under
MalformationsSound(g) == \A m \in Malformations(g) : ~RuleHolds(m.tg, m.rule)
BaseWellFormed(g) == WellFormedT(Tagged(g))

=============================================================================
