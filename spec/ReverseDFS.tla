----------------------------- MODULE ReverseDFS -----------------------------
(***************************************************************************)
(* C07: the reversed-transition table and the backward search.             *)
(* A graph is a sequence tl of sequences of successor indices (1-based);   *)
(* states may have no outgoing transition at this level of the API.        *)
(***************************************************************************)
EXTENDS Integers, Sequences, FiniteSets, TLC

N(tl) == Len(tl)
SuccG(tl, u) == {tl[u][k] : k \in DOMAIN tl[u]}
PredG(tl, v) == {u \in 1..N(tl) : v \in SuccG(tl, u)}
MultG(tl, u, v) == Cardinality({k \in DOMAIN tl[u] : tl[u][k] = v})
SeqToSet(q) == {q[i] : i \in DOMAIN q}
Count(q, x) == Cardinality({i \in DOMAIN q : q[i] = x})

\* least fixed point, frontier by frontier
RECURSIVE Back(_, _, _)
Back(tl, Seen, Frontier) ==
    IF Frontier = {} THEN Seen
    ELSE LET New == (UNION {PredG(tl, v) : v \in Frontier}) \ Seen
         IN  Back(tl, Seen \cup New, New)
BackReachG(tl, F) == Back(tl, F, F)

\* what reverse_dfs must return: the ascending enumeration of this set
SearchSet(tl, finals) == BackReachG(tl, SeqToSet(finals)) \ SeqToSet(finals)

StrictlyAscending(q) == \A i \in 1..(Len(q) - 1) : q[i] < q[i + 1]

\* Local certificate of exactness, checkable in O(edges): rank[x] >= 0 for the
\* states claimed to reach a final state; finals have rank 0; every claimed
\* non-final state has a successor of smaller rank (soundness); no unclaimed
\* state has a claimed successor (completeness).
CertifiesExact(tl, finals, R, rank) ==
    LET F == SeqToSet(finals)
        X == R \cup F
    IN  /\ \A x \in R : rank[x] > 0 /\ \E y \in SuccG(tl, x) : y \in X /\ rank[y] >= 0 /\ rank[y] < rank[x]
        /\ \A f \in F : rank[f] = 0
        /\ \A u \in (1..N(tl)) \ X : SuccG(tl, u) \cap X = {}

-----------------------------------------------------------------------------
(* clauses; ret / table are observation records                            *)
(*   ret   = [ok, etype, val]          val: returned list (1-based)        *)
(*   table = [ok, etype, keys, vals]   vals[i]: list stored under keys[i]  *)

SearchClauses(tl, finals, ret, big, rank) ==
    IF ~ret.ok THEN {"C07.NoError search " \o ret.etype}
    ELSE (IF StrictlyAscending(ret.val) THEN {} ELSE {"C07.Sorted"})
         \cup (IF \A i \in DOMAIN ret.val : ret.val[i] \in 1..N(tl) THEN {} ELSE {"C07.Range"})
         \cup (IF big
               THEN (IF SeqToSet(ret.val) \cap SeqToSet(finals) = {}
                        /\ CertifiesExact(tl, finals, SeqToSet(ret.val), rank)
                     THEN {} ELSE {"C07.Exact"})
               ELSE (IF SeqToSet(ret.val) = SearchSet(tl, finals) THEN {} ELSE {"C07.Exact"}))

TableClauses(tl, table, big) ==
    IF ~table.ok THEN {"C07.NoError table " \o table.etype}
    ELSE LET keys == SeqToSet(table.keys)
             at(v) == table.vals[CHOOSE i \in DOMAIN table.keys : table.keys[i] = v]
         IN  (IF keys = 1..N(tl) /\ Len(table.keys) = N(tl) THEN {} ELSE {"C07.RevKeys"})
             \cup (IF keys # 1..N(tl) THEN {}
                   ELSE IF big
                   THEN \* total size and per-edge membership (O(edges))
                        (IF /\ \A u \in 1..N(tl) : \A k \in DOMAIN tl[u] :
                                  Count(at(tl[u][k]), u) = MultG(tl, u, tl[u][k])
                            /\ \A v \in 1..N(tl) : \A i \in DOMAIN at(v) : v \in SuccG(tl, at(v)[i])
                         THEN {} ELSE {"C07.RevBag"})
                   ELSE (IF \A v \in 1..N(tl) : \A u \in 1..N(tl) : Count(at(v), u) = MultG(tl, u, v)
                         THEN {} ELSE {"C07.RevBag"}))

=============================================================================
