--------------------------------- MODULE VI ---------------------------------
(***************************************************************************)
(* The reachability value iteration of Solver.value_iteration_reachability *)
(* as an algorithm (growth beyond the input/output clauses of C01): one    *)
(* action per sweep.  TLC has no reals, so the iterate is carried as an    *)
(* INTERVAL of integers scaled by U = 10^8: lo[s] <= U * x_k[s] <= hi[s],  *)
(* floor / ceiling at every probabilistic update.  The sweep is in place   *)
(* and in index order over the work list (the non-final states that can    *)
(* reach a final state), exactly like the code.  zero[s] tracks EXACTLY    *)
(* which iterates are still 0 (that needs no arithmetic).                  *)
(*                                                                         *)
(* Stopping rule of the code: continue while the largest change of the     *)
(* sweep exceeds eps or some state has just left zero.  With intervals the *)
(* rule becomes: MustGoOn / MayStop (both can hold when the change is      *)
(* within rounding of eps).                                                *)
(***************************************************************************)
EXTENDS Values

U    == 100000000
EpsU == 100            \* 10^-6 in units of 1/U

WorkList(g) == Sorted(BackReach(g, FinalSet(g)) \ FinalSet(g))

Min2(a, b) == IF a < b THEN a ELSE b
Max2(a, b) == IF a > b THEN a ELSE b
CeilDiv(a, b) == (a + b - 1) \div b

RECURSIVE FoldRow(_, _, _, _)
\* (owner-specific combination of the successors' values v, from transition k down to 1)
FoldRow(row, k, v, kind) ==
    IF k = 0 THEN (IF kind = "sum" THEN 0 ELSE IF kind = "max" THEN 0 ELSE U)
    ELSE LET rest == FoldRow(row, k - 1, v, kind)
         IN  CASE kind = "sum" -> rest + row[k].w * v[row[k].t]
               [] kind = "max" -> Max2(rest, v[row[k].t])
               [] kind = "min" -> Min2(rest, v[row[k].t])

UpdLo(g, lo, s) ==
    LET row == g.tr[s]
    IN  CASE g.owner[s] = PR -> FoldRow(row, Len(row), lo, "sum") \div SumW(row, Len(row))
          [] g.owner[s] = P1 -> FoldRow(row, Len(row), lo, "max")
          [] g.owner[s] = P2 -> FoldRow(row, Len(row), lo, "min")
UpdHi(g, hi, s) ==
    LET row == g.tr[s]
    IN  CASE g.owner[s] = PR -> CeilDiv(FoldRow(row, Len(row), hi, "sum"), SumW(row, Len(row)))
          [] g.owner[s] = P1 -> FoldRow(row, Len(row), hi, "max")
          [] g.owner[s] = P2 -> FoldRow(row, Len(row), hi, "min")
UpdZero(g, zero, s) ==
    IF g.owner[s] = P2 THEN \E k \in DOMAIN g.tr[s] : zero[g.tr[s][k].t]
    ELSE \A k \in DOMAIN g.tr[s] : zero[g.tr[s][k].t]

\* one in-place sweep over the work list W from position k; st = [lo, hi, zero, dlo, dhi, lz]
RECURSIVE SweepFrom(_, _, _, _)
SweepFrom(g, W, k, st) ==
    IF k > Len(W) THEN st
    ELSE LET s  == W[k]
             nl == UpdLo(g, st.lo, s)
             nh == UpdHi(g, st.hi, s)
             nz == UpdZero(g, st.zero, s)
             \* the true change of this state lies in [cl, ch]
             cl == Max2(0, Max2(nl - st.hi[s], st.lo[s] - nh))
             ch == Max2(nh - st.lo[s], st.hi[s] - nl)
         IN  SweepFrom(g, W, k + 1,
                 [lo |-> [st.lo EXCEPT ![s] = nl], hi |-> [st.hi EXCEPT ![s] = nh],
                  zero |-> [st.zero EXCEPT ![s] = nz],
                  dlo |-> Max2(st.dlo, cl), dhi |-> Max2(st.dhi, ch),
                  lz |-> st.lz \/ (st.zero[s] /\ ~nz)])

Start(g) == [lo |-> [s \in 1..g.n |-> IF s \in FinalSet(g) THEN U ELSE 0],
             hi |-> [s \in 1..g.n |-> IF s \in FinalSet(g) THEN U ELSE 0],
             zero |-> [s \in 1..g.n |-> s \notin FinalSet(g)],
             dlo |-> 0, dhi |-> 0, lz |-> FALSE]

Sweep(g, st) == SweepFrom(g, WorkList(g), 1, [st EXCEPT !.dlo = 0, !.dhi = 0, !.lz = FALSE])

MustGoOn(st) == st.dlo > EpsU \/ st.lz          \* the code cannot have stopped after this sweep
MayStop(st)  == st.dhi <= EpsU /\ ~st.lz         \* the code may have stopped after this sweep
\* (when neither holds the change is within rounding of eps: both are accepted)

-----------------------------------------------------------------------------
(* The iteration as a machine *)
VARIABLES game, st, k, halted
vvars == <<game, st, k, halted>>

VInit(G) == game \in G /\ st = Start(game) /\ k = 0 /\ halted = FALSE

DoSweep == /\ ~halted /\ (k = 0 \/ ~MayStop(st))          \* (the ideal run stops as soon as it may)
           /\ st' = Sweep(game, st) /\ k' = k + 1 /\ UNCHANGED <<game, halted>>
Halt    == ~halted /\ k > 0 /\ MayStop(st) /\ halted' = TRUE /\ UNCHANGED <<game, st, k>>
VNext   == DoSweep \/ Halt

\* the interval is a sound bracket of an iterate that is monotone and never above the value
Bracket == \A s \in 1..game.n : st.lo[s] <= st.hi[s]
Monotone == [][\A s \in 1..game.n : st'.lo[s] >= st.lo[s] - 0]_vvars
\* zero tracking agrees with the exact zero set once nothing leaves zero any more
ZeroExactAtHalt == halted => {s \in 1..game.n : st.zero[s]} = ZeroSet(game)
\* the a-posteriori bound of DESIGN section 5, checked where exact values exist:
\* at a possible stop, value - iterate <= eps * H (+ rounding: one unit per sweep)
ToleranceLemma ==
    halted => LET rv == ReachValue(game)
                  hb == ReachStepBound(game)
              IN  \A s \in 1..game.n :
                     LET vU  == ToFix(rv[s])                         \* floor to 10^-9
                         vu  == vU[1] * U + vU[2] \div 10              \* in units of 1/U
                         tol == TolNano(ToFix(hb[s])) \div 10 + 1
                     IN  /\ st.lo[s] <= vu + 1                         \* never above the value
                         /\ vu - st.hi[s] <= tol + k                   \* within eps * H
=============================================================================
