--------------------------- MODULE Trace_Roborta ---------------------------
(***************************************************************************)
(* Trace validation for C08 and C11.  A session is one generated file:     *)
(*   [tid, board, probs, via, created, keys, loaderr, games (a, b, c),      *)
(*    exact (every probability within 1e-12 of k/10^6), raw checks,        *)
(*    outcomes]                                                            *)
(* C08: each emitted game is bisimilar to the rules' game (module Roborta).*)
(* C11: the file loads into exactly game_a, game_b, game_c, each proper,   *)
(* with the required shape, and each is solved or declared unsolvable.     *)
(***************************************************************************)
EXTENDS Roborta, Bisim, Json, IOUtils

Sessions == JsonDeserialize(IOEnv.TRACE_FILE)
Want == IOEnv.WANT       \* "C08" | "C11" | "both"
VARIABLES tid, step, fails
tvars == <<tid, step, fails>>
S == Sessions[tid]
Variants == <<"A", "B", "C">>

Init == tid \in DOMAIN Sessions /\ step = 0 /\ fails = {}

\* C17 for the manual entry point: the created file is named after the board and the three
\* probabilities (whole percents): inputs/manual_robot_w<W>_l<L>_r<largest reward>_rb_lb_tb_[force_down].py
RECURSIVE MaxOfSeq(_, _)
MaxOfSeq(q, i) == IF i = 0 THEN 0 ELSE LET m == MaxOfSeq(q, i - 1) IN IF q[i] > m THEN q[i] ELSE m
MaxOfMatrix(m) == MaxOfSeq([i \in DOMAIN m |-> MaxOfSeq(m[i], Len(m[i]))], Len(m))
WholePct(x) == x % 10000 = 0
\* how Python prints m / d for the denominators the boards use (fractional boards hold floats: 5.0, 2.5, 0.75)
RewardText(m, d) ==
    IF d = 1 THEN ToString(m)
    ELSE ToString(m \div d) \o (CASE (m % d) * 4 = 0 -> ".0" [] (m % d) * 4 = d -> ".25"
                                   [] (m % d) * 4 = 2 * d -> ".5" [] (m % d) * 4 = 3 * d -> ".75" [] OTHER -> ".?")
ManualName ==
    "inputs/manual_robot_w" \o ToString(S.board.W) \o "_l" \o ToString(S.board.L)
      \o "_r" \o RewardText(MaxOfMatrix(S.board.rewards), S.board.rden)
      \o "_rb" \o ToString(S.probs.rb \div 10000) \o "_lb" \o ToString(S.probs.lb \div 10000)
      \o "_tb" \o ToString(S.probs.tb \div 10000) \o "_"
      \o (IF MaxOfMatrix(S.board.moves) = 3 THEN "force_down" ELSE "") \o ".py"
\* rewards over a common denominator: emitted reward / RScale = board numerator / rden
ScaleRewards(G, k) == [G EXCEPT !.reward = [s \in DOMAIN G.reward |-> G.reward[s] * k]]
ManualNameClauses ==
    IF S.via # "manual" \/ ~(WholePct(S.probs.rb) /\ WholePct(S.probs.lb) /\ WholePct(S.probs.tb)) THEN {}
    ELSE IF S.created = <<ManualName>> THEN {} ELSE {"C17.ManualName expected " \o ManualName}

\* Beyond the listed properties (prefix X., counted, never a verdict): the comment at the head of a
\* generated file draws the board it was generated from - one row per board row, one tile
\* [reward|arrow(X or blank)] per column, the reward printed as int(reward) (fractions are cut off).
DepictionClauses ==
    LET d == S.depiction
        cut == [i \in DOMAIN S.board.rewards |->
                   [j \in DOMAIN S.board.rewards[i] |-> S.board.rewards[i][j] \div S.board.rden]]
    IN  (IF d.moves = S.board.moves THEN {} ELSE {"X.Depiction arrows"})
        \cup (IF d.loose = S.board.loose THEN {} ELSE {"X.Depiction loose tiles"})
        \cup (IF d.rewards = cut THEN {} ELSE {"X.Depiction rewards"})

Loaded == S.loaderr = "" /\ S.keys = <<"game_a", "game_b", "game_c">>

CheckLoad ==
    /\ step = 0
    /\ fails' = fails \cup (IF S.loaderr # "" THEN {"C11.Loads " \o S.loaderr}
                            ELSE IF S.keys # <<"game_a", "game_b", "game_c">> THEN {"C11.Loads keys"} ELSE {})
                      \cup ManualNameClauses
                      \cup (IF S.loaderr = "" /\ S.keys # <<>> THEN DepictionClauses ELSE {})
    /\ step' = IF Loaded /\ ~S.loadonly THEN 1 ELSE 4
    /\ UNCHANGED tid

\* C11 shape clauses on one emitted game
ShapeClauses(g, v, raw, outs) ==
    LET F == FinalSet(g)
        win == IF Len(g.final) = 1 THEN g.final[1] ELSE 0
        tag == " game=" \o v
        Z == ZeroSet(g)
    IN  (IF raw.valid THEN {} ELSE {"C11.WellFormed" \o tag \o " " \o raw.err})
        \cup (IF ~raw.valid \/ (WellFormed(g) /\ Proper(g)) THEN {} ELSE {"C11.Proper" \o tag})
        \cup (IF \A s \in 1..g.n : Len(g.tr[s]) >= 1 THEN {} ELSE {"C11.HasTransitions" \o tag})
        \cup (IF raw.probsok THEN {} ELSE {"C11.ProbPositiveSumOne" \o tag})
        \cup (IF win # 0 /\ g.tr[win] = <<Tr("", Million, win)>> THEN {}
              ELSE {"C11.OnlyFinalIsAbsorbingWin" \o tag})
        \cup (IF \E s \in 1..g.n : s \notin F /\ Absorbing(g, s) /\ g.owner[s] = PR /\ g.reward[s] = 0 THEN {}
              ELSE {"C11.LoseAbsorbing" \o tag})
        \cup {"C11.SolvedOrNoSolution" \o tag \o " prune=" \o ToString(o.prune) \o " got=" \o o.k :
                 o \in {o \in {outs[m] : m \in DOMAIN outs} :
                          ~( \/ (o.k = "Return" /\ ~(o.prune /\ 1 \in Z))
                             \/ (o.k = "nosolution" /\ o.prune /\ 1 \in Z) )}}

CheckGame ==
    /\ step \in 1..3
    /\ LET v == Variants[step]
           g == S.games[step]
       IN  fails' = fails
             \cup (IF Want \in {"C08", "both"}
                   THEN (IF S.exact[step] THEN {} ELSE {"C08.ProbExact game=" \o v})
                        \cup (IF ~S.raw[step].valid \/ ~WellFormed(g)
                              THEN {"C08.Bisimilar game=" \o v \o " (the emitted game is not even well-formed)"}
                              ELSE IF Bisimilar(ScaleRewards(g, S.board.rden),
                                                ScaleRewards(AbstractGame(S.board, v, S.probs), RScale(g))) THEN {}
                              ELSE {"C08.Bisimilar game=" \o v})
                   ELSE {})
             \cup (IF Want \in {"C11", "both"}
                   THEN (IF ~S.raw[step].valid \/ ~WellFormed(g)
                         THEN {"C11.WellFormed game=" \o v \o " " \o S.raw[step].err}
                         ELSE ShapeClauses(g, v, S.raw[step], S.outcomes[step]))
                   ELSE {})
    /\ step' = step + 1 /\ UNCHANGED tid

Verdict ==
    /\ step = 4
    /\ PrintT(ToJson([tid |-> S.tid, fails |-> fails,
                      notes |-> {"tiles=" \o ToString(S.board.L * S.board.W)}
                                \cup (IF S.board.W = 1 THEN {"C08.width1"} ELSE {})
                                \cup (IF S.loaderr = "" /\ S.keys # <<>> THEN {"X.Depiction checked"} ELSE {})
                                \cup (IF MaxOfMatrix(S.board.rewards) \div S.board.rden >= 10
                                      THEN {"X.Depiction multi-digit reward"} ELSE {})]))
    /\ step' = 5 /\ UNCHANGED <<tid, fails>>

Next == CheckLoad \/ CheckGame \/ Verdict
Spec == Init /\ [][Next]_tvars
=============================================================================
