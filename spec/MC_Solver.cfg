SPECIFICATION Spec
INVARIANT Repeatable
INVARIANT PruneConfluent
INVARIANT OnlyUnreachableCleared
INVARIANT StoppingPreserved
INVARIANT DomPositive
INVARIANT FinalSubsetOfReach
INVARIANT OutcomeTotal
INVARIANT PruneIrrelevantForReach
PROPERTY DescFrozen
PROPERTY Terminates
CHECK_DEADLOCK FALSE
