------------------------------- MODULE Batch -------------------------------
(***************************************************************************)
(* C12 / C16: the batch runner conditionalrewards.run_games as a state     *)
(* machine over an ordered dictionary of games.  At this level a game is   *)
(* an abstract kind and a solve is an uninterpreted function of the        *)
(* description it is given; what matters is WHICH description each solve   *)
(* sees and what is recorded.                                              *)
(*                                                                         *)
(* Descriptions can be "damaged": a pruned solve of a game with dead       *)
(* branches, run directly on the caller's object, removes transitions      *)
(* (the aliasing that the per-run deep copy protects against).             *)
(***************************************************************************)
EXTENDS Integers, Sequences, FiniteSets, TLC

CONSTANTS Kinds,        \* "ok", "okdead", "nosol", "malformed"
          MaxLen

VARIABLES queue,        \* the input dictionary: sequence of [name, kind]
          damaged,      \* per position: has the caller's description been edited
          pos, phase,   \* next game, "pruned" | "unpruned"
          hadSolution,  \* the per-game flag of run_games
          results       \* ordered result: sequence of [key, msg, val]

bvars == <<queue, damaged, pos, phase, hadSolution, results>>

Fails(kind) == kind \in {"nosol", "malformed"}
\* the uninterpreted solve: result token of solving a description
Solve(kind, prune, dmg) ==
    IF kind = "malformed" THEN [msg |-> "Error: malformed", val |-> "none"]
    ELSE IF kind = "nosol" /\ prune THEN [msg |-> "Error: no solution", val |-> "none"]
    ELSE [msg |-> "Game solved",
          val |-> kind \o (IF prune THEN "/pruned" ELSE "/unpruned") \o (IF dmg THEN "/damaged-input" ELSE "")]
\* what solving that game alone, from a pristine description, gives
Solo(kind, prune) == Solve(kind, prune, FALSE)

Names == {"g1", "g2", "g3"}
Init ==
    /\ queue \in UNION {[1..k -> [name : Names, kind : Kinds]] : k \in 1..MaxLen}
    /\ \A i, j \in DOMAIN queue : i # j => queue[i].name # queue[j].name
    /\ damaged = [i \in DOMAIN queue |-> FALSE]
    /\ pos = 1 /\ phase = "pruned" /\ hadSolution = TRUE /\ results = <<>>

Cur == queue[pos]

\* the real runner: every solve works on a deep copy
RunPruned ==
    /\ pos <= Len(queue) /\ phase = "pruned"
    /\ LET r == Solve(Cur.kind, TRUE, damaged[pos])
       IN  /\ results' = Append(results, [key |-> Cur.name, msg |-> r.msg, val |-> r.val])
           /\ hadSolution' = ~Fails(Cur.kind)
    /\ phase' = "unpruned" /\ UNCHANGED <<queue, damaged, pos>>

RunUnpruned ==
    /\ pos <= Len(queue) /\ phase = "unpruned" /\ hadSolution
    /\ LET r == Solve(Cur.kind, FALSE, damaged[pos])
       IN  results' = Append(results, [key |-> Cur.name \o "_no_prune", msg |-> r.msg, val |-> r.val])
    /\ pos' = pos + 1 /\ phase' = "pruned" /\ hadSolution' = TRUE
    /\ UNCHANGED <<queue, damaged>>

SkipUnpruned ==
    /\ pos <= Len(queue) /\ phase = "unpruned" /\ ~hadSolution
    /\ results' = Append(results, [key |-> Cur.name \o "_no_prune", msg |-> "Game not solved", val |-> "none"])
    /\ pos' = pos + 1 /\ phase' = "pruned" /\ hadSolution' = TRUE
    /\ UNCHANGED <<queue, damaged>>

\* the deliberately wrong variant: solve on the shared description (no copy)
RunPrunedNoCopy ==
    /\ pos <= Len(queue) /\ phase = "pruned"
    /\ LET r == Solve(Cur.kind, TRUE, damaged[pos])
       IN  /\ results' = Append(results, [key |-> Cur.name, msg |-> r.msg, val |-> r.val])
           /\ hadSolution' = ~Fails(Cur.kind)
    /\ damaged' = [damaged EXCEPT ![pos] = @ \/ Cur.kind = "okdead"]
    /\ phase' = "unpruned" /\ UNCHANGED <<queue, pos>>

\* a second wrong variant: the had-solution flag is not reset per game
SkipSticky ==
    /\ pos <= Len(queue) /\ phase = "unpruned" /\ ~hadSolution
    /\ results' = Append(results, [key |-> Cur.name \o "_no_prune", msg |-> "Game not solved", val |-> "none"])
    /\ pos' = pos + 1 /\ phase' = "pruned" /\ UNCHANGED <<queue, damaged, hadSolution>>
RunPrunedSticky ==
    /\ pos <= Len(queue) /\ phase = "pruned" /\ ~hadSolution
    /\ results' = Append(results, [key |-> Cur.name, msg |-> "Game not solved", val |-> "none"])
    /\ phase' = "unpruned" /\ UNCHANGED <<queue, damaged, pos, hadSolution>>

Next       == RunPruned \/ RunUnpruned \/ SkipUnpruned
NextNoCopy == RunPrunedNoCopy \/ RunUnpruned \/ SkipUnpruned
NextSticky == (hadSolution /\ RunPruned) \/ RunPrunedSticky \/ RunUnpruned \/ SkipSticky

Spec       == Init /\ [][Next]_bvars /\ WF_bvars(Next)
SpecNoCopy == Init /\ [][NextNoCopy]_bvars
SpecSticky == Init /\ [][NextSticky]_bvars

-----------------------------------------------------------------------------
(* Properties (C12) *)
Done == pos = Len(queue) + 1

\* keys: name, name_no_prune per game, in input order
KeysAndOrder ==
    \A i \in DOMAIN results :
        LET g == queue[(i + 1) \div 2]
        IN  results[i].key = (IF i % 2 = 1 THEN g.name ELSE g.name \o "_no_prune")

\* every entry is a function of its own game only
Isolation ==
    \A i \in DOMAIN results :
        LET g == queue[(i + 1) \div 2]
            prune == i % 2 = 1
        IN  IF ~prune /\ Fails(g.kind)
            THEN TRUE      \* covered by FailureProtocol
            ELSE [msg |-> results[i].msg, val |-> results[i].val] = Solo(g.kind, prune)

FailureProtocol ==
    \A i \in DOMAIN results :
        LET g == queue[(i + 1) \div 2]
        IN  (Solo(g.kind, TRUE).val = "none") =>
               IF i % 2 = 1 THEN results[i].msg = Solo(g.kind, TRUE).msg /\ results[i].val = "none"
               ELSE results[i].msg = "Game not solved" /\ results[i].val = "none"

InputUntouched == \A i \in DOMAIN damaged : ~damaged[i]
Terminates == <>Done
Complete == Done => Len(results) = 2 * Len(queue)
=============================================================================
