---------------------------- MODULE Conditioning ----------------------------
(***************************************************************************)
(* The conditioned game: the input game in which Player 1 may only use its *)
(* reachability strategies and (when pruning) every transition of a        *)
(* Player 1 or probabilistic state into a zero-probability state has been  *)
(* removed.  Weights are relative, so "rescaled to sum to 1" is implicit:   *)
(* the probability of a surviving transition is w / (sum of the surviving  *)
(* weights of its state).                                                  *)
(***************************************************************************)
EXTENDS Values

\* R[s] : set of action names Player 1 may still use in state s
RestrictP1To(g, R) ==
    [g EXCEPT !.tr = [s \in 1..g.n |->
        IF g.owner[s] = P1
        THEN SelectSeq(g.tr[s], LAMBDA e : e.a \in R[s])
        ELSE g.tr[s]]]

\* drop transitions of Player 1 / probabilistic state s into Z
PruneRow(g, Z, s) == SelectSeq(g.tr[s], LAMBDA e : e.t \notin Z)

PruneDead(g, Z) ==
    [g EXCEPT !.tr = [s \in 1..g.n |->
        IF g.owner[s] \in {P1, PR} THEN PruneRow(g, Z, s) ELSE g.tr[s]]]

Conditioned(g, R, Z, prune) ==
    IF prune THEN PruneDead(RestrictP1To(g, R), Z) ELSE RestrictP1To(g, R)

\* states still reachable from the initial state in a (conditioned) game
ReachDom(g) == FwdReach(SuccFn(g), 1)

\* One round of the solver's "clear what nobody points to" loop: the set of
\* non-Player-1 states that no transition of the current game enters
Referenced(g) == {1} \cup UNION {Succ(g, s) : s \in States(g)}
Unreferenced(g) == {s \in States(g) : g.owner[s] # P1 /\ s \notin Referenced(g)}
ClearStates(g, C) ==
    [g EXCEPT !.tr = [s \in 1..g.n |-> IF s \in C THEN <<>> ELSE g.tr[s]]]

RECURSIVE ClearLoop(_)
ClearLoop(g) == LET C == {s \in Unreferenced(g) : Len(g.tr[s]) > 0}
                IN  IF C = {} THEN g ELSE ClearLoop(ClearStates(g, C))

\* the only states whose list may be emptied on top of Conditioned(...)
Clearable(g) == States(g) \ ReachDom(g)

\* no cycle through a non-sink state inside Dom
RECURSIVE PeelLeaves(_, _)
PeelLeaves(g, X) ==
    LET Y == {s \in X : Succ(g, s) \cap X # {}}
    IN  IF Y = X THEN X ELSE PeelLeaves(g, Y)
AcyclicOn(g, Dom) == PeelLeaves(g, Dom \ Sinks(g)) = {}

=============================================================================
