-------------------------------- MODULE VIR --------------------------------
(***************************************************************************)
(* The reward phase of the solver as an algorithm (growth beyond the input *)
(* / output clauses of C02, C05, C14): Solver.value_iteration_total_rewards *)
(* sweeps the state list in index order, IN PLACE, and updates three        *)
(* quantities per state with one stopping test for all of them:             *)
(*   r  expected reward                      (Return field rew)             *)
(*   q  reward under reachability-minimising play of Player 2  (aux2)       *)
(*   p  probability of reaching under the reward strategies      (aux1)     *)
(* One step of the machine is one sweep.  The hook RewardSweep shows the    *)
(* three vectors after every sweep (sweep 0 = before the first), so a sweep  *)
(* is validated LOCALLY: each new number must be the update of its state     *)
(* applied to the mixed vector (new values below the state, old values from  *)
(* the state on), in micro units; no error accumulates over sweeps.          *)
(*                                                                         *)
(*   chance state   r = rew + sum pr_j r_j ; q = rew + sum pr_j q_j ;       *)
(*                  p = sum pr_j p_j                                        *)
(*   Player 1       j* = a permitted successor of maximal r ;               *)
(*                  r = rew + r_j* ; q = rew + q_j* ; p = p_j*              *)
(*   Player 2       j* = a successor of minimal r ; r = rew + r_j* ;        *)
(*                  p = p_j* ; q = rew + min q_j over the successors of     *)
(*                  minimal (rounded) reachability probability              *)
(*   no transitions r = q = p = 0                                           *)
(* Stopping rule: sweep again iff the largest change of any of the three    *)
(* quantities in the last sweep exceeds eps.                                *)
(***************************************************************************)
EXTENDS Clauses

UM == 1000000                                  \* micro units
Mic(v) == v.i * UM + v.f \div 1000

\* the vector the update of state s reads: already-updated below s, old from s on
Mixed(old, new, s) == [t \in DOMAIN old |-> IF t < s THEN new[t] ELSE old[t]]

AllOk(v) == \A t \in DOMAIN v : v[t].k = "ok"
SmallEnough(v) == \A t \in DOMAIN v : v[t].i < 1000

\* weighted average of a row in micro units, as the pair <<q * x, tolerance>> : see BellmanBad
LinearBad(row, val, xs, ownU) ==
    LET n  == Len(row)
        W  == SumW(row, n)
        gg == GcdRow(row, n, W)
        q  == W \div gg
    IN  IF W = 0 THEN FALSE          \* only zero-probability transitions left: any value of the sum is 0
        ELSE IF q * 1002 >= 2000 THEN FALSE      \* (would overflow: skipped)
        ELSE LET lhs == q * (Mic(xs) - ownU)
                 rhs == SumTo([k \in 1..n |-> (row[k].w \div gg) * Mic(val[row[k].t])], n)
             IN  Abs(lhs - rhs) > 3 * q + 1 + q

Near(a, b, tol) == Abs(a - b) <= tol

\* candidates for the arg-optimum of r over a row: within 2 micro of the optimum
Cands(kind, row, mr) ==
    LET vs  == {Mic(mr[row[k].t]) : k \in DOMAIN row}
        opt == IF kind = P1 THEN CHOOSE x \in vs : \A y \in vs : y <= x
               ELSE CHOOSE x \in vs : \A y \in vs : x <= y
    IN  {k \in DOMAIN row : Abs(Mic(mr[row[k].t]) - opt) <= 2}

\* successors of (possibly) minimal rounded reachability probability, and those surely minimal
ReachWorstMay(row, prob) ==
    LET vs  == {Mic(prob[row[k].t]) : k \in DOMAIN row}
        opt == CHOOSE x \in vs : \A y \in vs : x <= y
    IN  {k \in DOMAIN row : Mic(prob[row[k].t]) - opt <= 2}
ReachWorstMust(row, prob) ==
    LET mn == CHOOSE k \in DOMAIN row : \A j \in DOMAIN row : FixLeq(Fx(prob[row[k].t]), Fx(prob[row[j].t]))
    IN  {k \in DOMAIN row : Fx(prob[row[k].t]) = Fx(prob[row[mn].t])}

MinOf(S) == CHOOSE x \in S : \A y \in S : x <= y
MaxOf(S) == CHOOSE x \in S : \A y \in S : y <= x

\* the clauses of one sweep: old, new = [r, q, p] vectors; rows = the conditioned transition
\* lists of the specification; lens = observed lengths (a cleared state has none)
SweepClauses(g, rows, prob, lens, old, new) ==
    IF Len(new.r) # g.n \/ Len(new.q) # g.n \/ Len(new.p) # g.n \/ Len(lens) # g.n THEN {"VIR.Length"}
    ELSE IF RScale(g) # 1 \/ ~(AllOk(old.r) /\ AllOk(old.q) /\ AllOk(old.p) /\ AllOk(new.r) /\ AllOk(new.q) /\ AllOk(new.p))
            \/ ~(SmallEnough(old.r) /\ SmallEnough(old.q) /\ SmallEnough(new.r) /\ SmallEnough(new.q))
    THEN {}
    ELSE
    UNION {
      LET row  == IF lens[s] = 0 THEN <<>> ELSE rows[s]
          mr   == Mixed(old.r, new.r, s)
          mq   == Mixed(old.q, new.q, s)
          mp   == Mixed(old.p, new.p, s)
          own  == g.reward[s] * UM
          tag  == " s=" \o S2(s)
      IN  IF Len(row) = 0
          THEN (IF new.r[s].z /\ new.q[s].z /\ new.p[s].z THEN {} ELSE {"VIR.EmptyIsZero" \o tag})
          ELSE IF g.owner[s] = PR
          THEN (IF LinearBad(row, mr, new.r[s], own) THEN {"VIR.Step.r" \o tag} ELSE {})
               \cup (IF LinearBad(row, mq, new.q[s], own) THEN {"VIR.Step.q" \o tag} ELSE {})
               \cup (IF LinearBad(row, mp, new.p[s], 0) THEN {"VIR.Step.p" \o tag} ELSE {})
          ELSE LET C == Cands(g.owner[s], row, mr)
                   k0 == CHOOSE k \in C : TRUE
               IN  (IF Near(Mic(new.r[s]), Mic(mr[row[k0].t]) + own, 4) THEN {} ELSE {"VIR.Step.r" \o tag})
                   \cup (IF \E k \in C : Near(Mic(new.p[s]), Mic(mp[row[k].t]), 2) THEN {} ELSE {"VIR.Step.p" \o tag})
                   \cup (IF g.owner[s] = P1
                         THEN (IF \E k \in C : Near(Mic(new.q[s]), Mic(mq[row[k].t]) + own, 2) THEN {} ELSE {"VIR.Step.q" \o tag})
                         ELSE LET lo == MinOf({Mic(mq[row[k].t]) : k \in ReachWorstMay(row, prob)})
                                  hi == MaxOf({Mic(mq[row[k].t]) : k \in ReachWorstMust(row, prob)})
                                  x  == Mic(new.q[s]) - own
                              IN  IF lo - 2 <= x /\ x <= hi + 2 THEN {} ELSE {"VIR.Step.q" \o tag})
      : s \in 1..g.n }

\* largest change of any quantity in the sweep old -> new, nano units (capped at Nano)
Resid(old, new) ==
    LET ds == {FixDist(Fx(old.r[s]), Fx(new.r[s])) : s \in DOMAIN old.r}
              \cup {FixDist(Fx(old.q[s]), Fx(new.q[s])) : s \in DOMAIN old.q}
              \cup {FixDist(Fx(old.p[s]), Fx(new.p[s])) : s \in DOMAIN old.p}
    IN  MaxOf(ds)
Comparable(old, new) == AllOk(old.r) /\ AllOk(old.q) /\ AllOk(old.p) /\ AllOk(new.r) /\ AllOk(new.q) /\ AllOk(new.p)
                        /\ Len(old.r) = Len(new.r) /\ Len(old.q) = Len(new.q) /\ Len(old.p) = Len(new.p)
=============================================================================
