----------------------------- MODULE Gen_Boards -----------------------------
(***************************************************************************)
(* Behaviour generation for C08 / C11: Roborta boards and probability      *)
(* triples (integers per million).                                         *)
(*   GEN_FAMILY = exh2 (all boards with <= 2 tiles) | exh3 | samp (K       *)
(*   sampled boards with <= 4 tiles) | mid (K sampled boards 5..12 tiles)  *)
(***************************************************************************)
EXTENDS Integers, Sequences, FiniteSets, TLC, Json, IOUtils, SequencesExt

K      == atoi(IOEnv.GEN_K)
Family == IOEnv.GEN_FAMILY
Out    == IOEnv.GEN_OUT

Shapes(maxTiles) == {lw \in (1..maxTiles) \X (1..maxTiles) : lw[1] * lw[2] <= maxTiles}
Grid(L, W, V) == [1..L -> [1..W -> V]]
ProbVals == {100000, 500000, 290000, 900000, 10000, 125000, 333333, 62500}
Probs == [tb : ProbVals, rb : ProbVals, lb : ProbVals]

\* rewards are rewards[i][j] / rden (hand-made boards may carry fractional rewards)
Board(L, W, mv, rw, ls) == [L |-> L, W |-> W, moves |-> mv, rewards |-> rw, loose |-> ls, rden |-> 1]

ExhBoards(maxTiles) ==
    UNION { {Board(lw[1], lw[2], mv, rw, ls) :
                mv \in Grid(lw[1], lw[2], 0..3), ls \in Grid(lw[1], lw[2], 0..1),
                rw \in {[i \in 1..lw[1] |-> [j \in 1..lw[2] |-> (i + j + c) % 3]] : c \in 0..1}}
            : lw \in Shapes(maxTiles) }

RandBoard(L, W) ==
    LET d == RandomElement({1, 1, 1, 2, 4})
        \* every fourth integer board carries rewards of two digits (0, 5, 10, 15: the depiction comment,
        \* the file name of the manual entry point and the reward vectors all print them)
        m == IF d = 1 THEN RandomElement({1, 1, 1, 5}) ELSE 1
    IN  [Board(L, W,
          TLCEval([i \in 1..L |-> [j \in 1..W |-> RandomElement(0..3)]]),
          TLCEval([i \in 1..L |-> [j \in 1..W |-> m * RandomElement(0..(2 * d + 1))]]),
          TLCEval([i \in 1..L |-> [j \in 1..W |-> RandomElement(0..1)]])) EXCEPT !.rden = d]

SampShape(lo, hi) == RandomElement({lw \in (1..hi) \X (1..hi) : lw[1] * lw[2] >= lo /\ lw[1] * lw[2] <= hi})

WithProbs(S) == LET q == SetToSeq(S) IN [i \in DOMAIN q |-> [board |-> q[i], probs |-> RandomElement(Probs)]]

Cases ==
    CASE Family = "exh2" -> WithProbs(ExhBoards(2))
      [] Family = "exh3" -> WithProbs(ExhBoards(3))
      [] Family = "samp" -> [i \in 1..K |-> LET lw == SampShape(1, 4)
                                            IN  [board |-> TLCEval(RandBoard(lw[1], lw[2])), probs |-> RandomElement(Probs)]]
      [] Family = "mid"  -> [i \in 1..K |-> LET lw == SampShape(5, 12)
                                            IN  [board |-> TLCEval(RandBoard(lw[1], lw[2])), probs |-> RandomElement(Probs)]]

ASSUME JsonSerialize(Out, Cases)
ASSUME PrintT(ToJson([family |-> Family, count |-> Len(Cases)]))
=============================================================================
