------------------------------ MODULE MC_Solver ------------------------------
(***************************************************************************)
(* Design-level model checking of the solver pipeline on families of small *)
(* games (DESIGN.md section 3.2).  MC_FAMILY / GEN_K select the family.     *)
(***************************************************************************)
EXTENDS Solver, Gen_Games, Randomization

MCFamily ==
    CASE IOEnv.MC_FAMILY = "dead" -> RandomSubset(K, DeadGames)
      [] IOEnv.MC_FAMILY = "stop" -> {StopFamily[i].g : i \in DOMAIN StopFamily}
      [] IOEnv.MC_FAMILY = "rand" -> {RandFamily[i].g : i \in DOMAIN RandFamily}

Init ==
    /\ desc \in MCFamily
    /\ orc = Oracle(desc, TRUE, 1000)
    /\ pc = "idle" /\ prune = FALSE /\ nodes = desc.tr
    /\ prob = Null /\ rstrat = Null /\ rew = Null /\ fstrat = Null /\ res = Null /\ ro = Null
    /\ hist = [b \in BOOLEAN |-> Null]

Spec == Init /\ [][IdealNext]_svars /\ Fair

Terminates == (pc = "called") ~> (pc \in {"idle", "diverged"})
=============================================================================
