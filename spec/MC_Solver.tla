------------------------------ MODULE MC_Solver ------------------------------
(***************************************************************************)
(* Design-level model checking of the solver pipeline on families of small *)
(* games (DESIGN.md section 3.2).  MC_FAMILY / GEN_K select the family.     *)
(***************************************************************************)
EXTENDS Solver, Gen_Games, Randomization

MCFamily ==
    CASE IOEnv.MC_FAMILY = "dead" -> RandomSubset(K, DeadGames)
      [] IOEnv.MC_FAMILY = "stop" -> (LET q == StopFamily IN {q[i].g : i \in DOMAIN q})
      [] IOEnv.MC_FAMILY = "zerow" -> ZeroWGames
      [] IOEnv.MC_FAMILY = "degen" -> DegenGames
      [] IOEnv.MC_FAMILY = "forced" -> RandomSubset(K, ForcedGames)
      [] IOEnv.MC_FAMILY = "gap5" -> Gap5Games
      [] IOEnv.MC_FAMILY = "order3" -> RandomSubset(K, Order3Games)
      [] IOEnv.MC_FAMILY = "jump1" -> RandomSubset(K, Jump1Games)
      [] IOEnv.MC_FAMILY = "minreachrank" -> MinReachRankGames
      [] IOEnv.MC_FAMILY = "finaldeadend" -> RandomSubset(K, FinalDeadEndGames)
      [] IOEnv.MC_FAMILY = "rand" -> (LET q == RandFamily IN {q[i].g : i \in DOMAIN q})

Init ==
    /\ desc \in MCFamily
    /\ orc = Oracle(desc, TRUE, 1000)
    /\ pc = "idle" /\ prune = FALSE /\ nodes = desc.tr
    /\ prob = Null /\ rstrat = Null /\ rew = Null /\ fstrat = Null /\ res = Null /\ ro = Null
    /\ hist = [b \in BOOLEAN |-> Null]

Spec == Init /\ [][IdealNext]_svars /\ Fair

Terminates == (pc = "called") ~> (pc \in {"idle", "diverged"})
=============================================================================
