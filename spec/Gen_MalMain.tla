---------------------------- MODULE Gen_MalMain ----------------------------
(* Entry point of Gen_Malformed: writes all cases to GEN_OUT. *)
EXTENDS Gen_Malformed, Randomization
ASSUME \A b \in DOMAIN Bases : BaseWellFormed(Bases[b]) /\ MalformationsSound(Bases[b])
ASSUME JsonSerialize(Out, AllCases)
ASSUME PrintT(ToJson([family |-> "malformed", bases |-> Len(Bases), count |-> Len(AllCases)]))
=============================================================================
