------------------------------- MODULE Games -------------------------------
(***************************************************************************)
(* The game data type of the tool, as the specification sees it.           *)
(*                                                                         *)
(* A description g is a record                                             *)
(*   n      : number of states; states are 1..n, the initial state is 1    *)
(*            (state i here is Python state i-1)                           *)
(*   owner  : sequence of "P1" | "P2" | "PR"                               *)
(*   reward : sequence of naturals                                         *)
(*   tr     : per state a sequence of transitions [a, w, t]:               *)
(*            player states use the action name a (w = 0),                 *)
(*            probabilistic states use the integer weight w (a = ""),      *)
(*            the probability of a transition being w / (sum of the        *)
(*            weights of its state)                                        *)
(*   final  : sequence of final states (any order, repetitions allowed)    *)
(***************************************************************************)
EXTENDS Integers, Sequences, FiniteSets, TLC, Num

P1 == "P1"
P2 == "P2"
PR == "PR"

States(g)   == 1..g.n
FinalSet(g) == {g.final[i] : i \in DOMAIN g.final}
TrIdx(g, s) == DOMAIN g.tr[s]
Succ(g, s)  == {g.tr[s][k].t : k \in TrIdx(g, s)}
\* successors that can actually be entered: a probabilistic transition of weight 0 is
\* never taken (legal, if unusual: a parametrised game instantiated with probability 0)
SuccP(g, s) == {g.tr[s][k].t : k \in {k \in TrIdx(g, s) : g.owner[s] # PR \/ g.tr[s][k].w > 0}}
IsPlayer(g, s) == g.owner[s] \in {P1, P2}
StatesOf(g, o) == {s \in States(g) : g.owner[s] = o}

\* rewards are g.reward[s] / RScale(g): descriptions written by hand may carry rational
\* rewards (the paper's figure 5.5 has 5/3); generated ones have no such field
RScale(g) == IF "rscale" \in DOMAIN g THEN g.rscale ELSE 1

RECURSIVE SumW(_, _)
SumW(row, k) == IF k = 0 THEN 0 ELSE row[k].w + SumW(row, k - 1)
TotalW(g, s) == SumW(g.tr[s], Len(g.tr[s]))

Tr(a, w, t) == [a |-> a, w |-> w, t |-> t]

\* Structural well-formedness of a description in *this* encoding (the tagged
\* encoding that can also carry ill-typed Python values is in Malformed.tla).
WellFormed(g) ==
    /\ g.n >= 1
    /\ Len(g.owner) = g.n /\ Len(g.reward) = g.n /\ Len(g.tr) = g.n
    /\ \A s \in 1..g.n :
         /\ g.owner[s] \in {P1, P2, PR}
         /\ g.reward[s] >= 0
         /\ Len(g.tr[s]) >= 1
         /\ \A k \in DOMAIN g.tr[s] : g.tr[s][k].t \in 1..g.n
    /\ Len(g.final) >= 1
    /\ \A i \in DOMAIN g.final : g.final[i] \in 1..g.n

\* What the value semantics needs in addition: positive weights and distinct
\* action names per state.
Proper(g) ==
    /\ WellFormed(g)
    /\ \A s \in 1..g.n : \A k \in DOMAIN g.tr[s] :
         IF g.owner[s] = PR THEN g.tr[s][k].w >= 0 /\ TotalW(g, s) >= 1 /\ g.tr[s][k].a = ""
         ELSE /\ g.tr[s][k].w = 0          \* (any string is an action name, the empty one included)
              /\ \A j \in DOMAIN g.tr[s] : j # k => g.tr[s][j].a # g.tr[s][k].a

-----------------------------------------------------------------------------
(* Sinks and the stopping condition.                                       *)
(* A sink is a state that keeps the play forever and pays nothing: either  *)
(* its transition list is empty (only possible after conditioning) or all  *)
(* its transitions are self loops and its reward is 0.                     *)
Absorbing(g, s) == SuccP(g, s) \subseteq {s}
IsSink(g, s)    == Len(g.tr[s]) = 0 \/ (Absorbing(g, s) /\ g.reward[s] = 0)
Sinks(g)        == {s \in States(g) : IsSink(g, s)}

\* Largest set X of non-sink states inside Dom in which play can be kept
\* forever by some pair of strategies: probabilistic states need all their
\* successors in X, player states at least one.
RECURSIVE GfpStay(_, _)
GfpStay(g, X) ==
    LET Y == {s \in X :
                IF g.owner[s] = PR THEN SuccP(g, s) \subseteq X
                ELSE SuccP(g, s) \cap X # {}}
    IN  IF Y = X THEN X ELSE GfpStay(g, Y)

\* Stopping on the sub-arena Dom (closed under successors): every play from
\* Dom is absorbed in a sink with probability 1 whatever the players do,
\* every absorbing state pays 0, and final states are absorbing.
StoppingOn(g, Dom) ==
    /\ GfpStay(g, Dom \ Sinks(g)) = {}
    /\ \A s \in Dom \cap FinalSet(g) : Absorbing(g, s)

IsStopping(g) == StoppingOn(g, States(g))

=============================================================================
