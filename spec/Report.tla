------------------------------- MODULE Report -------------------------------
(***************************************************************************)
(* C16: the saved report.  One block per entry of the batch result, in run *)
(* order; each block is the fixed list of labelled lines below; the text   *)
(* after a label is the text form of the corresponding result value.       *)
(***************************************************************************)
EXTENDS Integers, Sequences, TLC

\* label of a report line -> key of the batch-result entry it prints
\* ("" : derived line)
FieldList == <<
    <<"Running example", "name">>,
    <<"Message", "msg">>,
    <<"number of states", "n_states">>,
    <<"number of transitions", "n_transitions">>,
    <<"n iterations reach", "n_iterations_reach">>,
    <<"n iterations rew", "n_iterations_rew">>,
    <<"Reachability strategies", "reachability_strategies">>,
    <<"Final strategies", "final_strategies">>,
    <<"Are equal", "">>,
    <<"Probabilities", "probabilities">>,
    <<"Probabilities min rew", "prob_min_rew">>,
    <<"Rewards", "rewards">>,
    <<"Rewards min reach", "rew_min_reach">>,
    <<"Total time", "total_time">> >>

Labels == [i \in DOMAIN FieldList |-> FieldList[i][1]]

\* the report file of input path  dir/stem.ext  is  outputs/stem.txt
ReportName(stem) == "outputs/" \o stem \o ".txt"

\* The command line (conditionalrewards.py -f FILE [-s] [-l LEVEL]).  LEVEL only chooses what is
\* logged: INFO | i | DEBUG | d | FULL_DEBUG | dd; anything else is refused before anything runs.
\* A report is written exactly when -s is given, and it does not depend on LEVEL.
CliVariantClauses(v, reportName) ==
    CASE v.name \in {"debug", "info"} ->
           (IF v.rc = 0 /\ v.files = <<reportName>> /\ v.same THEN {} ELSE {"C16.Cli with log level " \o v.name})
      [] v.name = "nosave" ->
           (IF v.rc = 0 /\ v.files = <<>> THEN {} ELSE {"X.Cli without -s writes or fails"})
      [] v.name = "badlevel" ->
           (IF v.rc # 0 /\ v.files = <<>> THEN {} ELSE {"X.Cli unknown log level accepted"})
      [] OTHER -> {"Machinery.CliVariant"}

\* entry: record of text forms keyed by result key; block: sequence of [label, text]
ExpectedText(entry, i) ==
    IF FieldList[i][2] = ""
    THEN (IF entry["reachability_strategies"] = entry["final_strategies"] THEN "True" ELSE "False")
    ELSE entry[FieldList[i][2]]

BlockClauses(entry, block, b) ==
    IF [i \in DOMAIN block |-> block[i].label] # Labels
    THEN {"C16.Labels block=" \o ToString(b)}
    ELSE {"C16.Field." \o FieldList[i][1] \o " block=" \o ToString(b) :
             i \in {i \in DOMAIN FieldList : FieldList[i][2] # "total_time"
                                             /\ block[i].text # ExpectedText(entry, i)}}
=============================================================================
