----------------------------- MODULE Gen_Games -----------------------------
(***************************************************************************)
(* Behaviour generation (spec -> code): TLC produces the game descriptions *)
(* that the harness feeds to the real solver.  Families are described in   *)
(* DESIGN.md section 6.  Parameters arrive through the environment:        *)
(*   GEN_FAMILY  rand | stop | dead | ties | tiny                          *)
(*   GEN_K       number of samples (sampling families)                     *)
(*   GEN_OUT     output file (JSON array of [fam, g, stopping, acyclic])   *)
(* Sampling uses TLC's RandomElement and is reproducible under -seed.      *)
(***************************************************************************)
EXTENDS Transform, Json, IOUtils

K      == atoi(IOEnv.GEN_K)
Family == IOEnv.GEN_FAMILY
Out    == IOEnv.GEN_OUT

Lab == <<"a", "b", "c", "d", "e">>

StateRec(n) == [o : {P1, P2, PR}, r : 0..3, k : 1..3, t : [1..3 -> 1..n], w : [1..3 -> 1..3]]
OptRec(n)   == [win : BOOLEAN, lose : BOOLEAN, xf : 0..n, fwd : BOOLEAN, ford : 0..2, xabs : BOOLEAN]

AbsRow(s) == <<Tr("", 1, s)>>

\* the game denoted by per-state records rc and options op
MkGame(n, rc, op) ==
    LET isWin(s)  == op.win /\ s = n
        isLose(s) == (op.lose /\ s = n - 1 /\ n >= 3)
                     \/ (op.xabs /\ s = op.xf /\ s >= 2)      \* an extra, absorbing final state
        tgt(s, j) == IF op.fwd /\ rc[s].o # PR /\ s < n
                     THEN s + 1 + (rc[s].t[j] % (n - s))
                     ELSE rc[s].t[j]
        row(s) == IF isWin(s) \/ isLose(s) THEN AbsRow(s)
                  ELSE [j \in 1..rc[s].k |->
                          IF rc[s].o = PR THEN Tr("", rc[s].w[j], tgt(s, j))
                          ELSE Tr(Lab[j], 0, tgt(s, j))]
        \* final states in any order, possibly listed twice
        fin == IF op.win
               THEN (IF op.xf \in 1..(n - 1) /\ ~(op.lose /\ op.xf = n - 1 /\ n >= 3)
                     THEN (CASE op.ford = 0 -> <<n, op.xf>>
                             [] op.ford = 1 -> <<op.xf, n>>
                             [] op.ford = 2 -> <<op.xf, n, op.xf>>)
                     ELSE <<n>>)
               ELSE <<IF op.xf = 0 THEN n ELSE op.xf>>
    IN  [n |-> n,
         owner  |-> [s \in 1..n |-> IF isWin(s) \/ isLose(s) THEN PR ELSE rc[s].o],
         reward |-> [s \in 1..n |-> IF isWin(s) \/ isLose(s) THEN 0 ELSE rc[s].r],
         tr     |-> [s \in 1..n |-> row(s)],
         final  |-> fin]

\* every play is absorbed in a sink whatever the players do (final states need not be
\* absorbing): the solver terminates on such a game, so the full pipeline can be run
Terminating(g) == GfpStay(g, States(g) \ Sinks(g)) = {}

Describe(fam, g) ==
    [fam |-> fam, g |-> g,
     stopping |-> IsStopping(g),
     solvemode |-> Terminating(g),
     acyclic  |-> AcyclicOn(g, States(g))]

RandGame(n) ==
    MkGame(n, TLCEval([s \in 1..n |-> RandomElement(StateRec(n))]), RandomElement(OptRec(n)))

StopGame(n) ==
    MkGame(n, TLCEval([s \in 1..n |-> RandomElement(StateRec(n))]),
           [win |-> TRUE, lose |-> TRUE, xf |-> RandomElement({0, 0, 2, n - 2}), xabs |-> TRUE,
            fwd |-> RandomElement({TRUE, TRUE, FALSE}), ford |-> RandomElement(0..2)])

SizeOf(i) == 3 + (i % 4)      \* n = 3..6

RandFamily == [i \in 1..K |-> TLCEval(Describe("rand", RandGame(SizeOf(i))))]
StopFamilyRaw == [i \in 1..K |-> TLCEval(Describe("stop", StopGame(SizeOf(i))))]
StopFamily == SelectSeq(StopFamilyRaw, LAMBDA d : d.stopping)

-----------------------------------------------------------------------------
(* DeadPattern: state 2 (Player 1 or probabilistic) has k successors, each *)
(* either a dead sink or a live state, in every pattern, with every weight *)
(* vector; state 1 is the initial state leading to it (optionally a Player *)
(* 2 state with a second, live, action); optional rewarded self loop.      *)
(*   states: 1 init, 2 centre, 3 live (PR -> win), 4..(3+k) per-successor  *)
(*   targets are chosen among: dead sinks D1, D2 / live L / win W / self   *)
(***************************************************************************)
DeadGames ==
    LET n == 7   \* 1 init, 2 centre, 3 live, 4 dead1 (sink), 5 dead2 (Player 1), 6 lose (sink), 7 win
        Tg == {3, 4, 5, 7, 2}           \* live, dead1, dead2, win, self
        rows(k) == [1..k -> Tg]
        mk(co, io, k, tg, wv, cr) ==
          [n |-> n,
           owner  |-> <<io, co, PR, PR, P1, PR, PR>>,
           reward |-> <<1, cr, 2, 0, 0, 0, 0>>,
           tr |-> << IF io = PR THEN <<Tr("", 1, 2)>>
                     ELSE <<Tr("a", 0, 2), Tr("b", 0, 3)>>,
                     [j \in 1..k |-> IF co = PR THEN Tr("", wv[j], tg[j])
                                     ELSE Tr(Lab[j], 0, tg[j])],
                     <<Tr("", 1, 7), Tr("", 1, 6)>>,
                     <<Tr("", 1, 4)>>,
                     <<Tr("x", 0, 4), Tr("y", 0, 6)>>,
                     <<Tr("", 1, 6)>>,
                     <<Tr("", 1, 7)>> >>,
           final |-> <<7>>]
    IN  { mk(co, io, k, tg, wv, cr) :
            co \in {P1, PR}, io \in {PR, P2, P1}, k \in {2, 3, 4},
            tg \in [1..4 -> Tg], wv \in {<<1,1,1,1>>, <<1,2,1,3>>, <<2,1,3,1>>}, cr \in {0, 1} }


-----------------------------------------------------------------------------
(* Tiny: a state whose value is positive but far below the solver's        *)
(* threshold (1/W), next to dead states: it must be treated as live.       *)
(*   1 chooser, 2 tiny (PR: 1 -> win, W-1 -> lose), 3 dead (-> lose),      *)
(*   4 mix (PR -> tiny / dead / win), 5 lose, 6 win                        *)
TinyGames ==
    LET mk(o, W, r1, mixrow, acts) ==
          [n |-> 6,
           owner  |-> <<o, PR, PR, PR, PR, PR>>,
           reward |-> <<r1, 1, 2, 1, 0, 0>>,
           tr |-> << IF o = PR THEN [j \in DOMAIN acts |-> Tr("", 1, acts[j])]
                     ELSE [j \in DOMAIN acts |-> Tr(Lab[j], 0, acts[j])],
                     <<Tr("", 1, 6), Tr("", W - 1, 5)>>,
                     <<Tr("", 1, 5)>>,
                     mixrow,
                     <<Tr("", 1, 5)>>, <<Tr("", 1, 6)>> >>,
           final |-> <<6>>]
    IN  { mk(o, W, r1, mixrow, acts) :
            o \in {P1, P2, PR}, W \in {1000000, 3000000, 4000000}, r1 \in {0, 1},
            mixrow \in { <<Tr("", 1, 2), Tr("", 1, 3)>>, <<Tr("", 1, 3), Tr("", 2, 2), Tr("", 1, 3)>>,
                         <<Tr("", 1, 2), Tr("", 1, 6)>> },
            acts \in { <<2, 3>>, <<3, 2>>, <<4, 3>>, <<2, 4>>, <<3, 4, 2>>, <<2>> } }

\* the tiny value has to travel several hops, one per sweep, to reach the initial
\* state:  1 -> 2 -> 3 -> 4 (tiny) ; 5 dead, 6 lose, 7 win ; any owners on the way
TinyChains ==
    LET mk(o1, o2, o3, W, alt, r) ==
          [n |-> 7,
           owner  |-> <<o1, o2, o3, PR, PR, PR, PR>>,
           reward |-> <<r, 1, 0, 1, 0, 0, 0>>,
           tr |-> << IF o1 = PR THEN <<Tr("", 1, 2)>> ELSE <<Tr("a", 0, 2)>> \o (IF alt THEN <<Tr("b", 0, 5)>> ELSE <<>>),
                     IF o2 = PR THEN <<Tr("", 1, 3), Tr("", 1, 5)>> ELSE <<Tr("a", 0, 3)>>,
                     IF o3 = PR THEN <<Tr("", 1, 4)>> ELSE <<Tr("a", 0, 4)>> \o (IF alt /\ o3 = P1 THEN <<Tr("b", 0, 5)>> ELSE <<>>),
                     <<Tr("", 1, 7), Tr("", W - 1, 6)>>,
                     <<Tr("", 1, 6)>>, <<Tr("", 1, 6)>>, <<Tr("", 1, 7)>> >>,
           final |-> <<7>>]
    IN  { mk(o1, o2, o3, W, alt, r) :
            o1 \in {P1, P2, PR}, o2 \in {P1, P2, PR}, o3 \in {P1, P2, PR},
            W \in {3000000, 10000000}, alt \in BOOLEAN, r \in {0, 1} }

-----------------------------------------------------------------------------
(* NonAbs: a final state that is NOT absorbing (any owner) whose successors *)
(* differ in reachability value and in reward, reached from the initial     *)
(* state; the game is acyclic, so the pipeline terminates.                  *)
(*   1 init, 2 final non-absorbing, 3 half (PR -> win / lose, reward 5),    *)
(*   4 dead (-> lose), 5 other (PR reward 1 -> win), 6 lose, 7 win          *)
NonAbsGames ==
    LET mk(o1, o2, acts, fin, r2) ==
          [n |-> 7,
           owner  |-> <<o1, o2, PR, PR, PR, PR, PR>>,
           reward |-> <<1, r2, 5, 2, 1, 0, 0>>,
           tr |-> << IF o1 = PR THEN <<Tr("", 1, 2), Tr("", 1, 5)>> ELSE <<Tr("go", 0, 2), Tr("alt", 0, 5)>>,
                     IF o2 = PR THEN [j \in DOMAIN acts |-> Tr("", j, acts[j])]
                     ELSE [j \in DOMAIN acts |-> Tr(Lab[j], 0, acts[j])],
                     <<Tr("", 1, 7), Tr("", 1, 6)>>,
                     <<Tr("", 1, 6)>>,
                     <<Tr("", 1, 7)>>,
                     <<Tr("", 1, 6)>>, <<Tr("", 1, 7)>> >>,
           final |-> fin]
    IN  { mk(o1, o2, acts, fin, r2) :
            o1 \in {P1, P2, PR}, o2 \in {P1, P2, PR},
            acts \in { <<7, 3>>, <<3, 7>>, <<3, 4>>, <<4, 3, 7>>, <<7, 4>>, <<3, 5>>, <<5, 3, 4>> },
            fin \in { <<2, 7>>, <<7, 2>>, <<2>>, <<2, 7, 2>> }, r2 \in {0, 3} }

(* Slow: a probabilistic state that leaves its self loop with probability  *)
(* 1/W only: value iteration needs tens of thousands of sweeps.             *)
(*   1 chooser, 2 slow, 3 alternative (PR -> win / lose), 4 lose, 5 win     *)
SlowGames ==
    LET mk(o, W, exits, alt, r) ==
          [n |-> 5,
           owner  |-> <<o, PR, PR, PR, PR>>,
           reward |-> <<0, r, 1, 0, 0>>,
           tr |-> << IF o = PR THEN <<Tr("", 1, 2), Tr("", 1, 3)>> ELSE <<Tr("a", 0, 2), Tr("b", 0, 3)>>,
                     <<Tr("", W - Len(exits), 2)>> \o [j \in DOMAIN exits |-> Tr("", 1, exits[j])],
                     alt,
                     <<Tr("", 1, 4)>>, <<Tr("", 1, 5)>> >>,
           final |-> <<5>>]
    IN  { mk(o, W, exits, alt, r) :
            o \in {P1, P2, PR}, W \in {2000, 10000}, exits \in {<<5>>, <<5, 4>>, <<4, 5, 5>>},
            alt \in {<<Tr("", 1, 5), Tr("", 1, 4)>>, <<Tr("", 2, 5), Tr("", 1, 4)>>, <<Tr("", 1, 5)>>},
            r \in {0, 1} }

(* Diag: nested player states whose reachability-optimal and reward-optimal  *)
(* choices differ, behind a chooser whose successors tie in reachability:    *)
(* the situations in which the two diagnostic vectors (C14) differ from the  *)
(* plain rewards and probabilities.                                          *)
(*   1 chooser -> 2, 3 ; 2 -> 4, 5 ; 3 -> 6, 5 ; 4, 5, 6 chance states with  *)
(*   their own reward and chance of winning ; 7 lose ; 8 win                 *)
DiagGames ==
    LET half == <<Tr("", 1, 8), Tr("", 1, 7)>>
        most == <<Tr("", 9, 8), Tr("", 1, 7)>>
        mk(o1, o2, o3, p4, p6, r) ==
          [n |-> 8,
           owner  |-> <<o1, o2, o3, PR, PR, PR, PR, PR>>,
           reward |-> <<0, r[1], r[2], r[3], r[4], r[5], 0, 0>>,
           tr |-> << <<Tr("x", 0, 2), Tr("y", 0, 3)>>,
                     <<Tr("c", 0, 4), Tr("d", 0, 5)>>,
                     <<Tr("c", 0, 6), Tr("d", 0, 5)>>,
                     p4, half, p6,
                     <<Tr("", 1, 7)>>, <<Tr("", 1, 8)>> >>,
           final |-> <<8>>]
    IN  { mk(o1, o2, o3, p4, p6, r) :
            o1 \in {P1, P2}, o2 \in {P1, P2}, o3 \in {P1, P2}, p4 \in {half, most}, p6 \in {half, most},
            r \in { <<0, 0, 1, 6, 1>>, <<1, 0, 6, 1, 3>>, <<0, 2, 1, 3, 7>>, <<2, 1, 4, 2, 1>>, <<0, 0, 5, 1, 9>> } }

(* SameRow: a maximiser and a minimiser with literally the same transition  *)
(* list (same action names, same successors), whose successors differ in     *)
(* value; and a Player 2 state whose reach-tied worst actions are separated   *)
(* by a better one, the cheapest of them last.                               *)
(*   1 -> 2, 3 ; 2 and 3 : l -> 4, m -> 6, r -> 5 ; 4 (9/10), 5 (1/2), 6 (1/2) *)
SameRowGames ==
    LET row3 == <<Tr("l", 0, 4), Tr("m", 0, 6), Tr("r", 0, 5)>>
        row2 == <<Tr("l", 0, 4), Tr("r", 0, 5)>>
        row3b == <<Tr("m", 0, 6), Tr("l", 0, 4), Tr("r", 0, 5)>>     \* the tied worst actions apart
        mk(o1, oa, ob, row, r) ==
          [n |-> 8,
           owner  |-> <<o1, oa, ob, PR, PR, PR, PR, PR>>,
           reward |-> <<0, 1, 1, r[1], r[2], r[3], 0, 0>>,
           tr |-> << IF o1 = PR THEN <<Tr("", 1, 2), Tr("", 1, 3)>> ELSE <<Tr("x", 0, 2), Tr("y", 0, 3)>>,
                     row, row,
                     <<Tr("", 9, 8), Tr("", 1, 7)>>, <<Tr("", 1, 8), Tr("", 1, 7)>>, <<Tr("", 1, 8), Tr("", 1, 7)>>,
                     <<Tr("", 1, 7)>>, <<Tr("", 1, 8)>> >>,
           final |-> <<8>>]
    IN  { mk(o1, oa, ob, row, r) :
            o1 \in {P1, P2, PR}, oa \in {P1, P2}, ob \in {P1, P2}, row \in {row2, row3, row3b},
            r \in { <<9, 2, 6>>, <<1, 5, 2>>, <<0, 0, 3>>, <<4, 6, 1>> } }

(* LoopDiag: a cycle through a player state that it leaves at once when     *)
(* minimising (maximising) reward but stays on when following its            *)
(* reachability strategy: the diagnostic "rewards under minimal              *)
(* reachability" converges far more slowly than the other two quantities.    *)
(*   1 chooser: out -> 2, loop -> 3 ; 2 chance -> win / lose ;               *)
(*   3 chance -> back to 1 (weight w), win, lose ; 4 lose ; 5 win            *)
LoopDiagGames ==
    LET mk(o, w, pout, r) ==
          [n |-> 5,
           owner  |-> <<o, PR, PR, PR, PR>>,
           reward |-> <<r[1], r[2], r[3], 0, 0>>,
           tr |-> << <<Tr("out", 0, 2), Tr("loop", 0, 3)>>,
                     pout,
                     <<Tr("", w, 1), Tr("", 1, 5), Tr("", 1, 4)>>,
                     <<Tr("", 1, 4)>>, <<Tr("", 1, 5)>> >>,
           final |-> <<5>>]
    IN  { mk(o, w, pout, r) :
            o \in {P1, P2}, w \in {2, 8, 18},
            pout \in { <<Tr("", 9, 5), Tr("", 1, 4)>>, <<Tr("", 1, 5), Tr("", 1, 4)>>, <<Tr("", 1, 5), Tr("", 9, 4)>> },
            r \in { <<1, 3, 1>>, <<0, 0, 2>>, <<1, 9, 0>>, <<2, 1, 1>> } }

(* SlowRew: a player state T whose reachability choice (b: a quick exit) and  *)
(* whose reward choice (a: a cheap but slow rewarded loop back to T) differ,  *)
(* so that the plain expected reward converges 40-100 times more slowly than  *)
(* the two diagnostic quantities of the same sweep.                           *)
(*   1 S -> T ; 2 T: a -> L, b -> Q ; 3 L: back to T (W-1)/W, on to R 1/W ;   *)
(*   4 Q ; 5 R ; 6 lose ; 7 win                                               *)
SlowRewGames ==
    LET mk(o, W, q, rL, rQ) ==
          [n |-> 7,
           owner  |-> <<PR, o, PR, PR, PR, PR, PR>>,
           reward |-> <<0, 0, rL, rQ, 0, 0, 0>>,
           tr |-> << <<Tr("", 1, 2)>>,
                     <<Tr("a", 0, 3), Tr("b", 0, 4)>>,
                     <<Tr("", W - 1, 2), Tr("", 1, 5)>>,
                     q,
                     <<Tr("", 1, 7), Tr("", 1, 6)>>,
                     <<Tr("", 1, 6)>>, <<Tr("", 1, 7)>> >>,
           final |-> <<7>>]
    IN  { mk(o, W, q, rL, rQ) :
            o \in {P1, P2}, W \in {20, 50},
            q \in { <<Tr("", 2, 7), Tr("", 3, 6)>>, <<Tr("", 1, 7), Tr("", 1, 6)>>, <<Tr("", 3, 7), Tr("", 2, 6)>> },
            rL \in {1, 5}, rQ \in {0, 100, 1000} }

(* Gap5: two competitors whose values differ by 9.4e-6 -- far beyond the      *)
(* threshold and the guard of the strategy clauses -- but lie in the same     *)
(* bucket of width 1e-5 (0.5000052 and 0.5000146; rewards 0.0000052 and       *)
(* 0.0000146): whoever compares at five decimals instead of six sees a tie.   *)
(*   1 chooser ; 2 X ; 3 Y ; 4 T (1/12019) ; 5 lose ; 6 win ; 7 V (reward 1)  *)
Gap5Games ==
    LET mk(o, swap, rewardKind, third) ==
          LET xy == IF swap THEN <<Tr("y", 0, 3), Tr("x", 0, 2)>> ELSE <<Tr("x", 0, 2), Tr("y", 0, 3)>>
          IN  [n |-> 7,
               owner  |-> <<o, PR, PR, PR, PR, PR, PR>>,
               reward |-> <<0, 0, 0, 0, 0, 0, IF rewardKind THEN 1 ELSE 0>>,
               tr |-> << IF third THEN xy \o <<Tr("z", 0, IF rewardKind THEN 6 ELSE 5)>> ELSE xy,
                         IF rewardKind THEN <<Tr("", 75, 6), Tr("", 5, 4)>> ELSE <<Tr("", 40, 6), Tr("", 35, 5), Tr("", 5, 4)>>,
                         IF rewardKind THEN <<Tr("", 66, 6), Tr("", 14, 4)>> ELSE <<Tr("", 40, 6), Tr("", 26, 5), Tr("", 14, 4)>>,
                         IF rewardKind THEN <<Tr("", 1, 7), Tr("", 12018, 6)>> ELSE <<Tr("", 1, 6), Tr("", 12018, 5)>>,
                         <<Tr("", 1, 5)>>, <<Tr("", 1, 6)>>, <<Tr("", 1, 6)>> >>,
               final |-> <<6>>]
    IN  { mk(o, swap, rk, third) : o \in {P1, P2}, swap \in BOOLEAN, rk \in BOOLEAN, third \in BOOLEAN }

(* Forced: single-action player states in front of a chooser whose           *)
(* reachability choice and reward choice differ -- the two diagnostic vectors *)
(* must be handed through a forced move unchanged.                            *)
(*   1 -> 2 -> 3 (single actions) ; 3 chooser: risky -> 4, safe -> 5 ;        *)
(*   4 chance (reward ra) wins with 1/2 ; 5 chance (reward rb) wins ; 6 lose ; 7 win *)
ForcedGames ==
    LET mk(o1, o2, o3, ra, rb, r2, swap) ==
          [n |-> 7,
           owner  |-> <<o1, o2, o3, PR, PR, PR, PR>>,
           reward |-> <<0, r2, 1, ra, rb, 0, 0>>,
           tr |-> << <<Tr("go", 0, 2)>>, <<Tr("on", 0, 3)>>,
                     IF swap THEN <<Tr("safe", 0, 5), Tr("risky", 0, 4)>> ELSE <<Tr("risky", 0, 4), Tr("safe", 0, 5)>>,
                     <<Tr("", 1, 7), Tr("", 1, 6)>>, <<Tr("", 1, 7)>>,
                     <<Tr("", 1, 6)>>, <<Tr("", 1, 7)>> >>,
           final |-> <<7>>]
    IN  { mk(o1, o2, o3, ra, rb, r2, swap) :
            o1 \in {P1, P2, PR} \ {PR}, o2 \in {P1, P2}, o3 \in {P1, P2},
            ra \in {10, 0}, rb \in {2, 12}, r2 \in {0, 1}, swap \in BOOLEAN }

(* Degen: the smallest and the degenerate legal games: one or two states, the *)
(* initial state itself final, every state final, a player state with twelve  *)
(* actions (several into the same successor), three final states.             *)
DegenGames ==
    LET one(o)  == [n |-> 1, owner |-> <<o>>, reward |-> <<0>>,
                    tr |-> << IF o = PR THEN <<Tr("", 1, 1)>> ELSE <<Tr("stay", 0, 1)>> >>, final |-> <<1>>]
        two(o1, o2, fin, r) ==
                   [n |-> 2, owner |-> <<o1, o2>>, reward |-> <<r, 0>>,
                    tr |-> << IF o1 = PR THEN <<Tr("", 1, 2)>> ELSE <<Tr("go", 0, 2)>>,
                              IF o2 = PR THEN <<Tr("", 1, 2)>> ELSE <<Tr("stay", 0, 2)>> >>, final |-> fin]
        \* 1 chooser with twelve actions into 2 (0.5), 3 (0.75), 4 (0.75 by another sum) ; 5 lose ; 6 win
        wide(o, r) ==
                   [n |-> 6, owner |-> <<o, PR, PR, PR, PR, PR>>, reward |-> <<0, r[1], r[2], r[3], 0, 0>>,
                    tr |-> << [k \in 1..12 |-> Tr("a" \o ToString(k), 0, 2 + (k % 3))],
                              <<Tr("", 1, 6), Tr("", 1, 5)>>, <<Tr("", 3, 6), Tr("", 1, 5)>>,
                              <<Tr("", 1, 6), Tr("", 2, 6), Tr("", 1, 5)>>,
                              <<Tr("", 1, 5)>>, <<Tr("", 1, 6)>> >>, final |-> <<6>>]
        \* three final states (one of them the initial state's only neighbour, one unreachable)
        three(o, fin) ==
                   [n |-> 5, owner |-> <<o, PR, PR, PR, PR>>, reward |-> <<1, 0, 0, 0, 0>>,
                    tr |-> << IF o = PR THEN <<Tr("", 1, 2), Tr("", 1, 3)>> ELSE <<Tr("l", 0, 2), Tr("r", 0, 3)>>,
                              <<Tr("", 1, 2)>>, <<Tr("", 1, 4), Tr("", 1, 5)>>, <<Tr("", 1, 4)>>, <<Tr("", 1, 5)>> >>,
                    final |-> fin]
    IN  {one(o) : o \in {P1, P2, PR}}
        \cup {two(o1, o2, fin, r) : o1 \in {P1, P2, PR}, o2 \in {P1, P2, PR}, fin \in {<<2>>, <<2, 1>>, <<1>>}, r \in {0, 2}}
        \cup {wide(o, r) : o \in {P1, P2}, r \in {<<0, 0, 0>>, <<1, 2, 2>>, <<3, 1, 2>>}}
        \cup {three(o, fin) : o \in {P1, P2, PR}, fin \in {<<2, 4, 5>>, <<5, 2, 4>>, <<4, 2>>, <<2, 2, 4>>}}

(* Jump1: a maximiser whose estimate rests at the value of a quick coin flip  *)
(* for some sweeps and then JUMPS to exactly 1 when a sure route, explored     *)
(* one link per sweep against the numbering, finally connects -- in a sweep    *)
(* in which nothing else moves, while a lower-numbered state still holds the   *)
(* old value.                                                                  *)
(*   1 -> 2 ; 2 chooser: safe -> 3 .. (chain of L single-action states) -> win *)
(*   risky -> coin (L+3) ; L+4 lose ; L+5 win                                  *)
Jump1Games ==
    LET mk(L, o0, oc, w) ==
          LET n == L + 5  coin == L + 3  lose == L + 4  win == L + 5
          IN  [n |-> n,
               owner  |-> [s \in 1..n |-> IF s = 1 THEN o0 ELSE IF s = 2 THEN P1
                                           ELSE IF s \in 3..(L + 2) THEN oc ELSE PR],
               reward |-> [s \in 1..n |-> 0],
               tr |-> [s \in 1..n |->
                         IF s = 1 THEN (IF o0 = PR THEN <<Tr("", 1, 2)>> ELSE <<Tr("go", 0, 2)>>)
                         ELSE IF s = 2 THEN <<Tr("safe", 0, 3), Tr("risky", 0, coin)>>
                         ELSE IF s \in 3..(L + 2)
                              THEN (IF oc = PR THEN <<Tr("", 1, IF s = L + 2 THEN win ELSE s + 1)>>
                                    ELSE <<Tr("x", 0, IF s = L + 2 THEN win ELSE s + 1)>>)
                         ELSE IF s = coin THEN <<Tr("", w, win), Tr("", 4 - w, lose)>>
                         ELSE IF s = lose THEN <<Tr("", 1, lose)>> ELSE <<Tr("", 1, win)>>],
               final |-> <<win>>]
        \* the same with a maximiser in front that has an alternative worth 9/10: between the
        \* resting value and the final one, so a stale estimate of the pass-through state behind it
        \* (state 2, which only ever copies the chooser's value) shows in its CHOICE
        front(L, oc, w) ==
          LET g == mk(L, P1, oc, w)  n == L + 7
          IN  [n |-> n, owner |-> <<P1>> \o g.owner \o <<PR>>, reward |-> [s \in 1..n |-> 0],
               tr |-> [s \in 1..n |-> IF s = 1 THEN <<Tr("go", 0, 2), Tr("alt", 0, n)>>
                                       ELSE IF s = n THEN <<Tr("", 9, L + 6), Tr("", 1, L + 5)>>
                                       ELSE [k \in DOMAIN g.tr[s - 1] |->
                                               [g.tr[s - 1][k] EXCEPT !.t = g.tr[s - 1][k].t + 1]]],
               final |-> <<L + 6>>]
    IN  { mk(L, o0, oc, w) : L \in 2..5, o0 \in {P1, P2, PR}, oc \in {P1, P2, PR}, w \in {1, 2, 3} }
        \cup { front(L, oc, w) : L \in 2..5, oc \in {P1, P2, PR}, w \in {1, 2, 3} }

(* Order3: a chooser with three actions whose values are pairwise different, in  *)
(* every one of the six listing orders (a selection loop that compares with the  *)
(* previous action instead of the best so far is right for two actions and for   *)
(* four of the six orders of three).  kind "rew": the three differ in reward and *)
(* reach the goal surely; kind "reach": they differ in reachability.             *)
(*   1 (pass-through or the chooser) ; chooser: a, b, c -> three chance states   *)
(*   then lose, win                                                              *)
Order3Games ==
    LET mk(o, p, kind, behind) ==
          LET c  == IF behind THEN 2 ELSE 1          \* the chooser
              b0 == c                                \* the three branches are c+1 .. c+3
              lose == c + 4  win == c + 5  n == c + 5
              val == <<6, 2, 4>>
          IN  [n |-> n,
               owner  |-> [s \in 1..n |-> IF s = c THEN o ELSE PR],
               reward |-> [s \in 1..n |-> IF s \in (b0 + 1)..(b0 + 3)
                                           THEN (IF kind = "rew" THEN val[p[s - b0]] ELSE 1) ELSE 0],
               tr |-> [s \in 1..n |->
                         IF s = c THEN <<Tr("a", 0, b0 + 1), Tr("b", 0, b0 + 2), Tr("c", 0, b0 + 3)>>
                         ELSE IF s < c THEN <<Tr("", 1, c)>>
                         ELSE IF s \in (b0 + 1)..(b0 + 3)
                              THEN (IF kind = "rew" THEN <<Tr("", 1, win)>>
                                    ELSE <<Tr("", val[p[s - b0]] + 2, win), Tr("", 8 - val[p[s - b0]], lose)>>)
                         ELSE <<Tr("", 1, s)>>],
               final |-> <<win>>]
    IN  { mk(o, p, kind, behind) : o \in {P1, P2}, p \in Permutations(1..3), kind \in {"rew", "reach"},
                                   behind \in BOOLEAN }

(* DupLabel: a player state that uses ONE action name on several transitions  *)
(* (legal: the validation only asks for strings).  Only the clauses on the     *)
(* conditioned transition lists (C03) and on outcomes (C06) are meaningful     *)
(* here; a strategy, being a list of names, cannot tell the transitions apart. *)
(*   1 chooser ; 2, 3 live (rewards 3, 1) ; 4 dead ; 5 lose ; 6 win            *)
DupLabelGames ==
    LET mk(o, row) ==
          [n |-> 6, owner |-> <<o, PR, PR, PR, PR, PR>>, reward |-> <<0, 3, 1, 2, 0, 0>>,
           tr |-> << row, <<Tr("", 1, 6)>>, <<Tr("", 1, 6)>>, <<Tr("", 1, 5)>>, <<Tr("", 1, 5)>>, <<Tr("", 1, 6)>> >>,
           final |-> <<6>>]
    IN  { mk(o, row) : o \in {P1, P2},
            row \in { <<Tr("go", 0, 2), Tr("go", 0, 4)>>, <<Tr("go", 0, 4), Tr("go", 0, 2)>>,
                      <<Tr("go", 0, 2), Tr("go", 0, 3)>>, <<Tr("go", 0, 3), Tr("go", 0, 2)>>,
                      <<Tr("go", 0, 2), Tr("alt", 0, 3), Tr("go", 0, 4)>>,
                      <<Tr("go", 0, 4), Tr("go", 0, 4), Tr("go", 0, 3)>> } }

(* MinReachRank: a chooser whose actions tie in reachability; behind one of   *)
(* them a player state answers differently for reachability (u: 1/2, reward   *)
(* 10) and for reward (v: sure, reward 1), so that ranking the chooser's      *)
(* actions by 'reward under reachability-minimising play' instead of by the   *)
(* expected reward picks the other action.                                     *)
(*   1 chooser: a -> 2, b -> 3 ; 2: u -> 4, v -> 5 ; 3 chance (reward rb, 1/2) *)
(*   4 chance (reward 10, 1/2) ; 5 chance (reward 1, sure) ; 6 lose ; 7 win    *)
MinReachRankGames ==
    LET mk(o1, o2, rb, swap1, swap2) ==
          [n |-> 7, owner |-> <<o1, o2, PR, PR, PR, PR, PR>>, reward |-> <<0, 0, rb, 10, 1, 0, 0>>,
           tr |-> << IF swap1 THEN <<Tr("b", 0, 3), Tr("a", 0, 2)>> ELSE <<Tr("a", 0, 2), Tr("b", 0, 3)>>,
                     IF swap2 THEN <<Tr("v", 0, 5), Tr("u", 0, 4)>> ELSE <<Tr("u", 0, 4), Tr("v", 0, 5)>>,
                     <<Tr("", 1, 7), Tr("", 1, 6)>>, <<Tr("", 1, 7), Tr("", 1, 6)>>, <<Tr("", 1, 7)>>,
                     <<Tr("", 1, 6)>>, <<Tr("", 1, 7)>> >>,
           final |-> <<7>>]
    IN  { mk(o1, o2, rb, s1, s2) : o1 \in {P1, P2}, o2 \in {P1, P2}, rb \in {5, 0, 30}, s1 \in BOOLEAN, s2 \in BOOLEAN }

(* FinalDeadEnd: a final state that is NOT absorbing and only moves on to a    *)
(* dead sink, so that pruning empties it although its own value is 1; it is    *)
(* numbered BEFORE its predecessors (bundled games list their finals last).    *)
(*   1 init -> 3, 4 ; 2 F (final, chance) -> 5 ; 3 P -> F or win ; 4 Q -> F ;   *)
(*   5 dead sink ; 6 win (final, absorbing)                                     *)
FinalDeadEndGames ==
    LET mk(o1, o3, o4, fin, r) ==
          [n |-> 6, owner |-> <<o1, PR, o3, o4, PR, PR>>, reward |-> <<0, r, 4, 10, 0, 0>>,
           tr |-> << IF o1 = PR THEN <<Tr("", 1, 3), Tr("", 1, 4)>> ELSE <<Tr("l", 0, 3), Tr("r", 0, 4)>>,
                     <<Tr("", 1, 5)>>,
                     IF o3 = PR THEN <<Tr("", 1, 2), Tr("", 1, 6)>> ELSE <<Tr("a", 0, 2), Tr("b", 0, 6)>>,
                     IF o4 = PR THEN <<Tr("", 1, 2)>> ELSE <<Tr("go", 0, 2)>>,
                     <<Tr("", 1, 5)>>, <<Tr("", 1, 6)>> >>,
           final |-> fin]
    IN  { mk(o1, o3, o4, fin, r) : o1 \in {P1, P2, PR}, o3 \in {P1, P2, PR}, o4 \in {P1, PR},
                                  fin \in {<<2, 6>>, <<6, 2>>}, r \in {0, 3} }

(* KeyCollide: action names that begin with digits, in a game with more than   *)
(* ten states: (Python) state 1 has the non-optimal, rich action "2x", state 12 *)
(* the optimal action "x" -- whoever builds keys by gluing index and name gets  *)
(* "12x" twice.                                                                 *)
(*   1 init -> 2, 13 ; 2: "2x" -> 11 (risky, reward 10), "y" -> win ;           *)
(*   3..10 fillers ; 11 risky ; 12 lose ; 13: "x" -> win, "w" -> lose ; 14 win   *)
KeyCollideGames ==
    { [n |-> 14,
       owner  |-> [s \in 1..14 |-> IF s \in {1, 11, 12, 14} THEN PR ELSE IF s \in {2, 13} THEN o ELSE P1],
       reward |-> [s \in 1..14 |-> IF s = 11 THEN 10 ELSE IF s = 2 THEN 1 ELSE 0],
       tr |-> [s \in 1..14 |->
                 CASE s = 1 -> <<Tr("", 1, 2), Tr("", 1, 13)>>
                   [] s = 2 -> (IF swap THEN <<Tr("y", 0, 14), Tr("2x", 0, 11)>> ELSE <<Tr("2x", 0, 11), Tr("y", 0, 14)>>)
                   [] s = 11 -> <<Tr("", 1, 14), Tr("", 1, 12)>>
                   [] s = 12 -> <<Tr("", 1, 12)>>
                   [] s = 13 -> <<Tr("x", 0, 14), Tr("w", 0, 12)>>
                   [] s = 14 -> <<Tr("", 1, 14)>>
                   [] OTHER -> <<Tr("f", 0, 14)>>],
       final |-> <<14>>] : o \in {P1}, swap \in BOOLEAN }

(* ZeroW: probabilistic transitions of weight 0 (never taken, but present):  *)
(* into dead states, into the final state, next to live ones.                *)
(*   1 chooser ; 2 chance with a zero-weight edge ; 3 live ; 4 dead ; 5 lose ; 6 win *)
ZeroWGames ==
    LET mk(o, row, r) ==
          [n |-> 6,
           owner  |-> <<o, PR, PR, PR, PR, PR>>,
           reward |-> <<0, r, 2, 1, 0, 0>>,
           tr |-> << IF o = PR THEN <<Tr("", 1, 2), Tr("", 1, 3)>> ELSE <<Tr("a", 0, 2), Tr("b", 0, 3)>>,
                     row,
                     <<Tr("", 1, 6), Tr("", 1, 5)>>,
                     <<Tr("", 1, 5), Tr("", 0, 6)>>,
                     <<Tr("", 1, 5)>>, <<Tr("", 1, 6)>> >>,
           final |-> <<6>>]
    IN  { mk(o, row, r) : o \in {P1, P2, PR}, r \in {0, 1},
            row \in { <<Tr("", 0, 4), Tr("", 3, 3), Tr("", 2, 1)>>,     \* zero edge into a dead state, first
                      <<Tr("", 1, 6), Tr("", 0, 4)>>,                    \* ... last, everything else live
                      <<Tr("", 1, 3), Tr("", 0, 5), Tr("", 1, 4)>>,     \* ... between, with a really dead one
                      <<Tr("", 0, 6), Tr("", 1, 4)>>,                    \* zero edge into the final state: value 0
                      <<Tr("", 0, 6), Tr("", 1, 3)>>,
                      <<Tr("", 2, 3), Tr("", 0, 3), Tr("", 0, 4)>> } }

(* BigRew: rewards in the millions whose relative difference is tiny but    *)
(* whose absolute difference is far above the tolerance.                    *)
BigRewGames ==
    LET mk(o, ra, rb, three) ==
          [n |-> 6,
           owner  |-> <<o, PR, PR, PR, PR, PR>>,
           reward |-> <<0, ra, rb, 1, 0, 0>>,
           tr |-> << IF three THEN <<Tr("a", 0, 2), Tr("c", 0, 4), Tr("b", 0, 3)>> ELSE <<Tr("a", 0, 2), Tr("b", 0, 3)>>,
                     <<Tr("", 1, 6)>>, <<Tr("", 1, 6)>>, <<Tr("", 1, 6)>>,
                     <<Tr("", 1, 5)>>, <<Tr("", 1, 6)>> >>,
           final |-> <<6>>]
    IN  { mk(o, ra, rb, three) :
            o \in {P1, P2}, three \in BOOLEAN,
            ra \in {3000000, 3000002, 10000000}, rb \in {3000000, 3000002, 10000007} }

\* a tiny value travelling down a long chain of single-action states WHILE an unrelated,
\* lower-numbered state is still converging (its change per sweep halves): the sweeps in
\* which the largest change is already below the threshold but zero is still being left
\*   1 init -> chain 3 .. L+2 -> tiny (L+3) ; 2 slow (orphan) ; L+4 lose ; L+5 win
TinySlow ==
    LET mk(L, W, o, slowfirst) ==
          LET n == L + 5
              tiny == L + 3  lose == L + 4  win == L + 5
              slow == IF slowfirst THEN 2 ELSE L + 2
              nxt(s) == IF slowfirst THEN s + 1 ELSE (IF s + 1 = slow THEN s + 2 ELSE s + 1)
          IN  [n |-> n,
               owner |-> [s \in 1..n |-> IF s \in {slow, tiny, lose, win} THEN PR ELSE o],
               reward |-> [s \in 1..n |-> IF s = 1 THEN 1 ELSE 0],
               tr |-> [s \in 1..n |->
                         IF s = slow THEN <<Tr("", 1, slow), Tr("", 1, win)>>
                         ELSE IF s = tiny THEN <<Tr("", 1, win), Tr("", W - 1, lose)>>
                         ELSE IF s = lose THEN <<Tr("", 1, lose)>>
                         ELSE IF s = win THEN <<Tr("", 1, win)>>
                         ELSE IF s = 1 THEN <<Tr("go", 0, IF slowfirst THEN 3 ELSE 2)>>
                         ELSE <<Tr("go", 0, IF nxt(s) > L + 2 \/ (nxt(s) = slow) THEN tiny ELSE nxt(s))>>],
               final |-> <<win>>]
    IN  { mk(L, W, o, sf) : L \in {24, 30}, W \in {3000000, 10000000}, o \in {P1, P2}, sf \in BOOLEAN }

-----------------------------------------------------------------------------
(* Ties: the initial state chooses between X and Y whose values are equal   *)
(* as rationals but are computed along different arithmetic paths (and an   *)
(* optional third action that is clearly better or worse).                  *)
(*   1 chooser, 2 X, 3 Y, 4 Z, 5 aux, 6 lose, 7 win                         *)
(***************************************************************************)
TieGames ==
    LET n == 7
        \* pairs of rows <<X, Y>> with equal value p of reaching win (rest: lose)
        XY == { << <<Tr("", 1, 7), Tr("", 2, 7), Tr("", 3, 6)>>,  <<Tr("", 1, 7), Tr("", 1, 6)>> >>,
                << <<Tr("", 1, 7), Tr("", 1, 7), Tr("", 1, 6)>>,  <<Tr("", 2, 7), Tr("", 1, 6)>> >>,
                << <<Tr("", 1, 6), Tr("", 2, 7)>>,                <<Tr("", 2, 7), Tr("", 1, 6)>> >>,
                << <<Tr("", 3, 2), Tr("", 1, 7), Tr("", 1, 6)>>,  <<Tr("", 1, 7), Tr("", 1, 6)>> >>,   \* cycle (K1 witness)
                << <<Tr("", 1, 5), Tr("", 1, 6)>>,                <<Tr("", 1, 7), Tr("", 3, 6)>> >>,   \* via aux (1/2 * 1/2)
                \* decimal weights: the float sums differ from the float of the exact value
                << <<Tr("", 1, 7), Tr("", 7, 7), Tr("", 2, 6)>>,  <<Tr("", 8, 7), Tr("", 2, 6)>> >>,   \* 0.1+0.7 vs 0.8
                << <<Tr("", 1, 7), Tr("", 2, 7), Tr("", 7, 6)>>,  <<Tr("", 3, 7), Tr("", 7, 6)>> >>,   \* 0.1+0.2 vs 0.3
                << <<Tr("", 2, 7), Tr("", 1, 6), Tr("", 7, 7)>>,  <<Tr("", 1, 6), Tr("", 9, 7)>> >>,   \* 0.2+0.7 vs 0.9
                \* both reach the (rewarded) state 4 with 2/3: reward ties at values that round up
                << <<Tr("", 2, 4), Tr("", 1, 6)>>,                <<Tr("", 4, 4), Tr("", 2, 6)>> >>,
                << <<Tr("", 1, 4), Tr("", 1, 4), Tr("", 1, 6)>>,  <<Tr("", 2, 4), Tr("", 1, 6)>> >>,
                << <<Tr("", 1, 7)>>,                              <<Tr("", 2, 7), Tr("", 3, 7)>> >>,   \* both 1
                << <<Tr("", 1, 6)>>,                              <<Tr("", 2, 6), Tr("", 1, 6)>> >> }  \* both 0
        Zrow == { <<Tr("", 1, 6)>>, <<Tr("", 1, 7)>>, <<Tr("", 1, 7), Tr("", 9, 6)>>, <<Tr("", 9, 7), Tr("", 1, 6)>> }
        mk(o, xy, three, z, rw) ==
          [n |-> n,
           owner  |-> <<o, PR, PR, PR, PR, PR, PR>>,
           reward |-> <<0, rw[1], rw[2], 1, 0, 0, 0>>,
           tr |-> << IF three THEN <<Tr("x", 0, 2), Tr("z", 0, 4), Tr("y", 0, 3)>>
                     ELSE <<Tr("x", 0, 2), Tr("y", 0, 3)>>,
                     xy[1], xy[2], z,
                     <<Tr("", 1, 7), Tr("", 1, 6)>>,
                     <<Tr("", 1, 6)>>, <<Tr("", 1, 7)>> >>,
           final |-> <<7>>]
    IN  { mk(o, xy, three, z, rw) :
            o \in {P1, P2}, xy \in XY, three \in BOOLEAN, z \in Zrow,
            rw \in {<<0, 0>>, <<1, 1>>, <<1, 2>>, <<2, 1>>} }

-----------------------------------------------------------------------------
(* Histories (C10): call scripts of length <= 3 over {same object A, fresh  *)
(* object} x {prune, no prune} on stopping games.                           *)
Scripts == UNION {[1..k -> [obj : {"A", "new"}, prune : BOOLEAN]] : k \in 1..3}

\* a distribution whose float probabilities do not add up to exactly 1.0 (0.69 + 0.3 + 0.01)
OddSum ==
    [n |-> 5, owner |-> <<PR, PR, P1, PR, PR>>, reward |-> <<1, 2, 0, 0, 0>>,
     tr |-> << <<Tr("", 69, 2), Tr("", 30, 3), Tr("", 1, 4)>>, <<Tr("", 7, 5), Tr("", 2, 4), Tr("", 1, 5)>>,
               <<Tr("a", 0, 5), Tr("b", 0, 4)>>, <<Tr("", 1, 4)>>, <<Tr("", 1, 5)>> >>, final |-> <<5>>]
\* the initial state cannot reach the final state (pruned: no solution; unpruned: solved)
NoWay ==
    [n |-> 4, owner |-> <<P2, PR, PR, PR>>, reward |-> <<1, 1, 0, 0>>,
     tr |-> << <<Tr("a", 0, 2), Tr("b", 0, 3)>>, <<Tr("", 1, 3), Tr("", 1, 4)>>, <<Tr("", 1, 3)>>, <<Tr("", 1, 4)>> >>,
     final |-> <<4>>]

HistBase(i) ==
    IF i % 3 = 0 THEN RandomElement(DeadGames)
    ELSE IF i % 11 = 1 THEN OddSum ELSE IF i % 11 = 2 THEN NoWay ELSE StopGame(SizeOf(i))
HistFamilyRaw ==
    [i \in 1..K |-> LET g == TLCEval(HistBase(i))
                    IN  TLCEval([fam |-> "hist", g |-> g, stopping |-> IsStopping(g),
                                 acyclic |-> AcyclicOn(g, States(g)),
                                 calls |-> RandomElement(Scripts)])]
\* every script of length 2 on the two fixed games (object reuse across modes, both orders)
HistFixed ==
    LET ss == SetToSeq({q \in Scripts : Len(q) = 2})
        mk(g, q) == [fam |-> "hist", g |-> g, stopping |-> TRUE, acyclic |-> TRUE, calls |-> q]
    IN  [i \in 1..(2 * Len(ss)) |-> IF i <= Len(ss) THEN mk(NoWay, ss[i]) ELSE mk(OddSum, ss[i - Len(ss)])]
HistFamily == SelectSeq(HistFamilyRaw, LAMBDA d : d.stopping) \o HistFixed

\* the caller EDITS its description between calls (same Python objects, new content):
\* g2 is g with one transition redirected; calls before and after the edit
\* or g with another target: one more final state, or a single other one (a sweep over
\* targets on one description; the candidates are the states the play stops in for free)
EditFinal(g) ==
    LET cand == {s \in States(g) : Absorbing(g, s) /\ g.reward[s] = 0}
        t    == RandomElement(cand)
    IN  IF RandomElement(1..2) = 1 THEN [g EXCEPT !.final = <<t>>] ELSE [g EXCEPT !.final = g.final \o <<t>>]
EditOf(g) ==
    LET s == RandomElement(1..g.n)
        k == RandomElement(DOMAIN g.tr[s])
        t == RandomElement(1..g.n)
    IN  IF RandomElement(1..3) = 1 /\ \E x \in States(g) : Absorbing(g, x) /\ g.reward[x] = 0
        THEN EditFinal(g) ELSE [g EXCEPT !.tr[s][k].t = t]
EditFamilyRaw ==
    [i \in 1..K |-> LET g  == TLCEval(HistBase(i))
                        g2 == TLCEval(EditOf(g))
                    IN  TLCEval([fam |-> "edit", g |-> g, g2 |-> g2,
                                 stopping |-> IsStopping(g) /\ IsStopping(g2) /\ g2 # g,
                                 acyclic |-> AcyclicOn(g, States(g)),
                                 calls |-> RandomElement(Scripts)])]
EditFamily == SelectSeq(EditFamilyRaw, LAMBDA d : d.stopping)

(* Presentations (C13): a game, a random renumbering / reordering /        *)
(* renaming, and the transformed game.                                     *)
Renamings == { <<>>,
               << <<"a", "b">>, <<"b", "a">> >>,
               << <<"a", "zz">>, <<"b", "a1">>, <<"c", "_c">>, <<"x", "y">>, <<"y", "x">> >>,
               \* legal but unusual names: the empty string, a blank, a name containing another
               << <<"a", "">>, <<"b", " ">>, <<"c", "a b">>, <<"x", "-">>, <<"y", "x y">>, <<"go", "0">>,
                  <<"out", "go ">>, <<"loop", "out">> >>,
               << <<"x", "">>, <<"y", " ">>, <<"z", "x y">>, <<"go", "g o">>, <<"a", "b">>, <<"b", "ab">> >>,
               << <<"go", "">>, <<"out", " ">>, <<"loop", "lo op">> >> }
\* a random permutation of lo..hi by ranking random keys (Permutations(S) explodes beyond 9 elements)
RandPerm(lo, hi) ==
    LET key == TLCEval([s \in lo..hi |-> RandomElement(1..1000000)])
    IN  [s \in lo..hi |-> lo + Cardinality({t \in lo..hi : key[t] < key[s] \/ (key[t] = key[s] /\ t < s)})]
RandRel(g) ==
    LET p == IF g.n = 1 THEN <<>> ELSE TLCEval(RandPerm(2, g.n))
    IN  [kind |-> "perm",
         pi |-> [s \in 1..g.n |-> IF s = 1 THEN 1 ELSE p[s]],
         rho |-> [s \in 1..g.n |-> RandomElement(Permutations(1..Len(g.tr[s])))],
         alpha |-> RandomElement(Renamings)]
\* states that become unreachable once Player 1 is restricted, in a chain that runs AGAINST the
\* numbering (4 -> 3 -> 2): clearing them needs more than one pass in index order
\*   1 chooser: good -> 5, bad -> 4 ; 4 (Player 2 / chance) -> 3 ; 3 -> 2 ; 2 chance (reward 3) -> win or lose
BackChainGames ==
    { [n |-> 7, owner |-> <<P1, PR, o3, o4, PR, PR, PR>>, reward |-> <<0, 3, r3, 1, 2, 0, 0>>,
       tr |-> << <<Tr("good", 0, 5), Tr("bad", 0, 4)>>,
                 <<Tr("", 1, 7), Tr("", 1, 6)>>,
                 IF o3 = PR THEN <<Tr("", 1, 2)>> ELSE <<Tr("x", 0, 2)>>,
                 IF o4 = PR THEN <<Tr("", 1, 3)>> ELSE <<Tr("y", 0, 3)>>,
                 <<Tr("", 1, 7)>>, <<Tr("", 1, 6)>>, <<Tr("", 1, 7)>> >>,
       final |-> <<7>>] : o3 \in {P2, PR}, o4 \in {P2, PR}, r3 \in {0, 4} }
\* reward ties at values that round up at six decimals
TieUp == {g \in TieGames : g.tr[2][1].t = 4}
PermBase(i) ==
    IF i % 9 = 4 THEN RandomElement(TinySlow)
    ELSE IF i % 9 = 7 THEN RandomElement(TinyChains)
    ELSE IF i % 18 = 5 THEN RandomElement(SlowRewGames)
    ELSE IF i % 18 = 11 THEN RandomElement(BackChainGames)
    ELSE IF i % 18 = 2 THEN RandomElement(FinalDeadEndGames)
    ELSE IF i % 36 = 10 THEN RandomElement(KeyCollideGames)
    ELSE IF i % 18 = 14 THEN RandomElement(ZeroWGames)
    ELSE IF i % 9 = 8 THEN RandomElement(IF i % 2 = 0 THEN TieUp ELSE TieGames)
    ELSE IF i % 3 = 0 THEN RandomElement(DeadGames)
    ELSE IF i % 3 = 1 THEN StopGame(SizeOf(i)) ELSE RandGame(SizeOf(i))
PermFamily ==
    [i \in 1..K |-> LET g == TLCEval(PermBase(i))
                        rel == TLCEval(RandRel(g))
                    IN  TLCEval([fam |-> "perm", g |-> g, stopping |-> IsStopping(g), solvemode |-> Terminating(g),
                                 acyclic |-> AcyclicOn(g, States(g)),
                                 rel |-> rel, h |-> TransformGame(g, rel)])]

=============================================================================
