-------------------------------- MODULE MC_VI --------------------------------
(* Model checking of the value-iteration machine on TLC-generated families. *)
EXTENDS VI, Gen_Games

Fam == CASE IOEnv.MC_FAMILY = "stop" -> (LET q == StopFamily IN {q[i].g : i \in DOMAIN q})
         [] IOEnv.MC_FAMILY = "rand" -> (LET q == RandFamily IN {q[i].g : i \in DOMAIN q})
         [] IOEnv.MC_FAMILY = "ties" -> TieGames
Init == VInit(Fam)
Spec == Init /\ [][VNext]_vvars /\ WF_vvars(VNext)
Converges == <>halted
=============================================================================
