-------------------------------- MODULE Num --------------------------------
(***************************************************************************)
(* Exact arithmetic for the oracle side of the specification.              *)
(*                                                                         *)
(*  - rationals  <<num, den>>  (den > 0, gcd-normalised);                  *)
(*  - comparison by the Euclidean scheme so that no cross product is ever  *)
(*    formed (TLC integers are 32 bit and overflow is a TLC error);          *)
(*  - non-negative fixed point numbers <<I, F>> = I + F * 10^-9,           *)
(*    F \in 0..10^9-1: the form in which the harness logs every float      *)
(*    (floor of the exact binary value, computed with fractions.Fraction); *)
(*  - integer determinants by Laplace expansion (Cramer's rule).           *)
(***************************************************************************)
EXTENDS Integers, Sequences, TLC

Nano == 1000000000

Abs(x) == IF x < 0 THEN -x ELSE x

RECURSIVE GCD(_, _)
GCD(a, b) == IF b = 0 THEN a ELSE GCD(b, a % b)

Rat(n, d) ==
    IF n = 0 THEN <<0, 1>>
    ELSE LET g == GCD(Abs(n), Abs(d))
             s == IF d < 0 THEN -1 ELSE 1
         IN  <<s * (n \div g), s * (d \div g)>>

RZero == <<0, 1>>
ROne  == <<1, 1>>

\* a <= b for non-negative rationals, without cross multiplication
RECURSIVE RLeq(_, _)
RLeq(a, b) ==
    LET ia == a[1] \div a[2]  ib == b[1] \div b[2]
        ra == a[1] % a[2]     rb == b[1] % b[2]
    IN  IF ia # ib THEN ia < ib
        ELSE IF ra = 0 THEN TRUE
        ELSE IF rb = 0 THEN FALSE
        ELSE RLeq(<<b[2], rb>>, <<a[2], ra>>)

RLt(a, b) == ~RLeq(b, a)
REq(a, b) == a = b          \* both normalised

RMaxOf(S) == CHOOSE x \in S : \A y \in S : RLeq(y, x)
RMinOf(S) == CHOOSE x \in S : \A y \in S : RLeq(x, y)

\* small-number rational addition (only used where the numbers are tiny:
\* weights / total weight of one state)
RAdd(a, b) == Rat(a[1] * b[2] + b[1] * a[2], a[2] * b[2])

-----------------------------------------------------------------------------
(* Fixed point <<I, F>> *)

RECURSIVE Digits(_, _, _, _)
\* long division: k further decimal digits of rem/q appended to acc
Digits(rem, q, k, acc) ==
    IF k = 0 THEN acc
    ELSE LET r10 == rem * 10
         IN  Digits(r10 % q, q, k - 1, acc * 10 + (r10 \div q))

\* floor of a non-negative rational to 9 decimals
ToFix(r) == <<r[1] \div r[2], Digits(r[1] % r[2], r[2], 9, 0)>>

FixLeq(a, b) == a[1] < b[1] \/ (a[1] = b[1] /\ a[2] <= b[2])
FixLt(a, b)  == ~FixLeq(b, a)
\* a + k * 10^-9   (0 <= k <= 10^9)
FixAdd(a, k) == LET f == a[2] + k
                IN  IF f >= Nano THEN <<a[1] + 1, f - Nano>> ELSE <<a[1], f>>
\* a <= b + k nano
FixLeqTol(a, b, k) == FixLeq(a, FixAdd(b, k))
\* |a - b| <= k nano
FixNear(a, b, k) == FixLeqTol(a, b, k) /\ FixLeqTol(b, a, k)
\* |a - b| in nano units, capped at Nano
FixDist(a, b) ==
    IF a[1] = b[1] THEN Abs(a[2] - b[2])
    ELSE LET hi == IF a[1] > b[1] THEN a ELSE b
             lo == IF a[1] > b[1] THEN b ELSE a
             d  == (Nano - lo[2]) + hi[2]
         IN  IF hi[1] - lo[1] > 1 \/ d > Nano THEN Nano ELSE d
FixZero == <<0, 0>>
FixOne  == <<1, 0>>
IsFix(x) == /\ x \in Seq(Int) /\ Len(x) = 2 /\ x[1] >= 0 /\ x[2] >= 0 /\ x[2] < Nano

\* tolerance eps * H in nano units for H given as fixed point, eps = 10^-6:
\* ceil(H * 1000) ; "big" (> 10^9 nano) is reported as Nano (callers skip)
TolNano(h) == IF h[1] >= 1000000 THEN Nano
              ELSE h[1] * 1000 + (h[2] \div 1000000) + 1
\* the same for a threshold of eps nano units (eps = 1000 is the solver's 10^-6)
TolNanoE(h, eps) == IF h[1] >= Nano \div eps THEN Nano
                    ELSE h[1] * eps + ((h[2] \div 1000000) * eps) \div 1000 + 1

-----------------------------------------------------------------------------
(* Determinants.  M is a function [1..k -> [1..k -> Int]].                 *)

DropAt(s, j) == [i \in 1..(Len(s) - 1) |-> IF i < j THEN s[i] ELSE s[i + 1]]

RECURSIVE SumTo(_, _)
SumTo(f, k) == IF k = 0 THEN 0 ELSE f[k] + SumTo(f, k - 1)

RECURSIVE DetR(_, _, _)
DetR(M, r, cols) ==
    IF Len(cols) = 0 THEN 1
    ELSE LET k == Len(cols)
             term == [j \in 1..k |->
                        LET e == M[r][cols[j]]
                        IN  IF e = 0 THEN 0
                            ELSE (IF j % 2 = 1 THEN e ELSE -e)
                                   * DetR(M, r + 1, DropAt(cols, j))]
         IN  SumTo(term, k)

Det(M, k) == DetR(M, 1, [i \in 1..k |-> i])

\* Solve  M x = b  (k x k, integers) ; result: sequence of rationals.
\* Caller guarantees det # 0.
Cramer(M, b, k) ==
    LET d == Det(M, k)
    IN  [i \in 1..k |->
            Rat(Det([r \in 1..k |-> [c \in 1..k |-> IF c = i THEN b[r] ELSE M[r][c]]], k), d)]

=============================================================================
