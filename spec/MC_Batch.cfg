SPECIFICATION Spec
CONSTANTS
  Kinds = {"ok", "okdead", "nosol", "malformed"}
  MaxLen = 3
INVARIANT KeysAndOrder
INVARIANT Isolation
INVARIANT FailureProtocol
INVARIANT InputUntouched
INVARIANT Complete
PROPERTY Terminates
CHECK_DEADLOCK FALSE
