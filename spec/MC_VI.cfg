SPECIFICATION Spec
INVARIANT Bracket
INVARIANT ZeroExactAtHalt
INVARIANT ToleranceLemma
PROPERTY Monotone
PROPERTY Converges
CHECK_DEADLOCK FALSE
