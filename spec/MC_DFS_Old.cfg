SPECIFICATION OldSpec
CONSTANT NS = 3
INVARIANT ExactOnce
CHECK_DEADLOCK FALSE
