SPECIFICATION SpecSticky
CONSTANTS
  Kinds = {"ok", "okdead", "nosol", "malformed"}
  MaxLen = 2
INVARIANT Isolation
INVARIANT FailureProtocol
CHECK_DEADLOCK FALSE
