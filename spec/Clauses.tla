------------------------------ MODULE Clauses ------------------------------
(***************************************************************************)
(* The solver pipeline as a state machine, and the relation between what   *)
(* the real solver reports and what the semantics allows, as NAMED CLAUSES *)
(* (sets of strings; empty = the step is allowed).  The same clause        *)
(* operators are used                                                      *)
(*   - by the design-level model (MC_Solver): the ideal solver's outputs   *)
(*     satisfy every clause, pruning is confluent, stopping is preserved;  *)
(*   - by the trace specification (Trace_Solver): every recorded step of   *)
(*     the real code is judged by them.                                    *)
(*                                                                         *)
(* Observed numbers are records [i, f, k, z, o]: value = i + f*10^-9       *)
(* (floor), k = "ok" | "neg" | "nan" | "inf" | "big" | "nonnum",           *)
(* z / o = the float is exactly 0 / exactly 1.                             *)
(* Observed strategies are records [none, acts].                           *)
(***************************************************************************)
EXTENDS Conditioning

Fx(v) == <<v.i, v.f>>
S2(s) == ToString(s)

ObsOf(r) == LET f == ToFix(r)
            IN  [i |-> f[1], f |-> f[2], k |-> "ok", z |-> (r = RZero), o |-> (r = ROne)]

ActNames(row) == [j \in DOMAIN row |-> row[j].a]
SeqSet(q) == {q[j] : j \in DOMAIN q}
PosIn(names, a) == CHOOSE j \in DOMAIN names : names[j] = a

\* acts is names with some entries deleted (names are pairwise distinct)
IsSubseqOf(acts, names) ==
    /\ \A j \in DOMAIN acts : \E m \in DOMAIN names : names[m] = acts[j]
    /\ \A j, m \in DOMAIN acts : j < m => PosIn(names, acts[j]) < PosIn(names, acts[m])

-----------------------------------------------------------------------------
(* Oracle: everything about a description that the clauses need.           *)
Oracle(g, exact, eps) ==
    IF exact
    THEN LET rv == ReachValue(g)
             hb == ReachStepBound(g)
         IN  [exact |-> TRUE, eps |-> eps, zero |-> ZeroSet(g), stopping |-> IsStopping(g),
              rv  |-> rv,
              rvf |-> TLCEval([s \in States(g) |-> ToFix(rv[s])]),
              tol |-> TLCEval([s \in States(g) |-> TolNanoE(ToFix(hb[s]), eps)])]
    ELSE [exact |-> FALSE, eps |-> eps, zero |-> ZeroSet(g), stopping |-> IsStopping(g)]

-----------------------------------------------------------------------------
(* C01: reported reachability probabilities                                *)
ReachClauses(g, orc, p) ==
    IF Len(p) # g.n THEN {"C01.Length"}
    ELSE
      {"C01.Numeric s=" \o S2(s) : s \in {s \in States(g) : p[s].k # "ok"}}
      \cup {"C01.FinalOne s=" \o S2(s) : s \in {s \in FinalSet(g) : ~p[s].o}}
      \* value 0 (in particular: no path to a final state) must be reported as exactly 0;
      \* the converse is not demanded by C01 (a tiny positive value may be reported as 0,
      \* clause Within bounds how tiny)
      \cup {"C01.ZeroExact s=" \o S2(s) : s \in {s \in orc.zero : ~p[s].z}}
      \cup (IF orc.exact
            THEN {"C01.NotAbove s=" \o S2(s) :
                     s \in {s \in States(g) : ~FixLeqTol(Fx(p[s]), orc.rvf[s], 2)}}
                 \cup {"C01.Within s=" \o S2(s) :
                     s \in {s \in States(g) : orc.tol[s] < Nano
                                /\ ~FixLeqTol(orc.rvf[s], Fx(p[s]), orc.tol[s] + 2)}}
            ELSE {})

-----------------------------------------------------------------------------
(* Bellman consistency (C01 / C02 at sizes without exact values): the      *)
(* reported vector is a fixed point of the max / min / weighted-average     *)
(* equations up to the threshold.  Arithmetic in integer units u per 1      *)
(* (10^6 where it fits in 32 bits, coarser otherwise); a probabilistic row  *)
(* w_t / W is reduced to p_t / q first.                                     *)
Units(v, u) == v.i * u + (v.f \div (Nano \div u))

RECURSIVE GcdRow(_, _, _)
GcdRow(row, k, acc) == IF k = 0 THEN acc ELSE GcdRow(row, k - 1, GCD(acc, row[k].w))

\* residual of one state in units u: 0 means "consistent"; -1 means "skipped (would overflow)"
\* val: function state -> observed number; own: what the state itself adds (0 or its reward)
BellmanBad(owner, row, val, xs, own, maxI) ==
    LET n == Len(row)
    IN  IF n = 0 THEN 0
        ELSE IF owner = PR
        THEN LET W == SumW(row, n)
                 gg == GcdRow(row, n, W)
                 q == W \div gg
                 \* (the first test keeps q * (maxI + 2) itself inside 32 bits: q may be 10^6, maxI above 2146)
                 u == IF maxI + 2 > 2000000 \div q THEN 0
                      ELSE IF q * (maxI + 2) < 2000 THEN 1000000
                      ELSE IF q * (maxI + 2) < 200000 THEN 10000
                      ELSE IF q * (maxI + 2) < 2000000 THEN 1000 ELSE 0
             IN  IF u = 0 THEN -1
                 ELSE LET lhs == q * (Units(xs, u) - own * u)
                          rhs == SumTo([k \in 1..n |-> (row[k].w \div gg) * Units(val[row[k].t], u)], n)
                          tol == 3 * q + 1 + (q * u) \div 1000000
                      IN  IF Abs(lhs - rhs) <= tol THEN 0 ELSE 1
        ELSE LET u == IF maxI + 2 < 2000 THEN 1000000 ELSE 1000
                 vs == {Units(val[row[k].t], u) : k \in 1..n}
                 opt == IF owner = P1 THEN CHOOSE x \in vs : \A y \in vs : y <= x
                        ELSE CHOOSE x \in vs : \A y \in vs : x <= y
             IN  IF Abs(Units(xs, u) - own * u - opt) <= 2 + u \div 1000000 THEN 0 ELSE 1

MaxInt(val, D) == LET S == {val[s].i : s \in D} IN IF S = {} THEN 0 ELSE CHOOSE m \in S : \A x \in S : x <= m

BellmanReach(g, p) ==
    IF Len(p) # g.n \/ \E s \in 1..g.n : p[s].k # "ok" THEN {}
    ELSE LET Can == BackReach(g, FinalSet(g))
             bad(s) == BellmanBad(g.owner[s], g.tr[s], p, p[s], 0, 1)
         IN  {"C01.Bellman s=" \o S2(s) : s \in {s \in Can \ FinalSet(g) : bad(s) = 1}}

BellmanReward(Gc, Dom, rew) ==
    IF Len(rew) # Gc.n \/ (\E s \in Dom : rew[s].k # "ok") \/ RScale(Gc) # 1 THEN {}
    ELSE LET mi == MaxInt(rew, Dom)
             bad(s) == IF Len(Gc.tr[s]) = 0 THEN (IF rew[s].z THEN 0 ELSE 1)
                       ELSE BellmanBad(Gc.owner[s], Gc.tr[s], rew, rew[s], Gc.reward[s], mi)
         IN  {"C02.Bellman s=" \o S2(s) : s \in {s \in Dom : bad(s) = 1}}

\* strategies: shape (None on probabilistic states, a sub-list in transition
\* order on player states)
ShapeClauses(g, st, tag, rows) ==
    IF Len(st) # g.n THEN {tag \o ".Length"}
    ELSE {tag \o ".ProbNone s=" \o S2(s) :
             s \in {s \in States(g) : (g.owner[s] = PR) # st[s].none}}
         \cup {tag \o ".Subsequence s=" \o S2(s) :
             s \in {s \in States(g) : g.owner[s] # PR /\ ~st[s].none
                       /\ ~IsSubseqOf(st[s].acts, ActNames(rows[s]))}}

\* v "clearly worse" than opt: worse by more than guard nano (floors taken
\* conservatively); kind = P1 maximises, P2 minimises
ClearlyWorse(kind, vf, optf, guard) ==
    IF kind = P1 THEN FixLt(FixAdd(vf, guard + 1), optf)
    ELSE FixLt(FixAdd(optf, guard + 1), vf)

\* C04 on the exact domain.  p: reported probabilities, rs: reported strategies.
\* K1 (known finding, DESIGN section 8) is recognised by its signature and
\* reported under its own name.
C04Exact(g, orc, p, rs) ==
    UNION { LET row   == g.tr[s]
                kind  == g.owner[s]
                vals  == [j \in DOMAIN row |-> orc.rv[row[j].t]]
                opt   == IF kind = P1 THEN RMaxOf(SeqSet(vals)) ELSE RMinOf(SeqSet(vals))
                optf  == ToFix(opt)
                guardOf(j) == LET m == CHOOSE m \in DOMAIN row : vals[m] = opt
                                  ta == orc.tol[row[j].t]  tb == orc.tol[row[m].t]
                              IN  2 * (IF ta > tb THEN ta ELSE tb) + 2 * orc.eps
                must  == {j \in DOMAIN row : vals[j] = opt}
                mnot  == {j \in DOMAIN row : /\ vals[j] # opt
                                             /\ guardOf(j) < Nano
                                             /\ ClearlyWorse(kind, ToFix(vals[j]), optf, guardOf(j))}
                listed == SeqSet(rs[s].acts)
                missed == {j \in must : row[j].a \notin listed}
                \* K1: the solver's own numbers separate the tie BECAUSE OF THE STOPPING
                \* ERROR of the iteration (one of the two reported values is off its exact
                \* value by more than floating-point noise), every listed action is truly
                \* optimal, at least one is listed
                offBy(t) == ~FixNear(Fx(p[t]), orc.rvf[t], 2)
                sepByOwn(j) == \E m \in must : row[m].a \in listed /\
                                   (offBy(row[j].t) \/ offBy(row[m].t)) /\
                                   IF kind = P1 THEN FixLt(Fx(p[row[j].t]), Fx(p[row[m].t]))
                                   ELSE FixLt(Fx(p[row[m].t]), Fx(p[row[j].t]))
                listedOpt == \A j \in DOMAIN row : row[j].a \in listed => j \in must
            IN  {(IF sepByOwn(j) /\ listedOpt THEN "K1:" ELSE "") \o "C04.MustAll s=" \o S2(s)
                    \o " a=" \o row[j].a : j \in missed}
                \cup {"C04.NoClearlyWorse s=" \o S2(s) \o " a=" \o row[j].a :
                        j \in {j \in mnot : row[j].a \in listed}}
          : s \in {s \in States(g) : g.owner[s] # PR /\ ~rs[s].none} }

\* C04 at sizes without exact values: zones from the reported numbers
C04Reported(g, orc, p, rs) ==
    UNION { LET row  == g.tr[s]
                kind == g.owner[s]
                vf   == [j \in DOMAIN row |-> Fx(p[row[j].t])]
                optf == CHOOSE x \in SeqSet(vf) :
                          \A y \in SeqSet(vf) : IF kind = P1 THEN FixLeq(y, x) ELSE FixLeq(x, y)
                listed == SeqSet(rs[s].acts)
                \* a value this close to a 6-digit rounding boundary may legitimately
                \* fall on either side
                edge(x) == (x[2] % orc.eps) \in {orc.eps \div 2 - 1, orc.eps \div 2, orc.eps \div 2 + 1}
            IN  {"C04.MustAll s=" \o S2(s) \o " a=" \o row[j].a :
                    j \in {j \in DOMAIN row : FixNear(vf[j], optf, 1) /\ ~edge(vf[j]) /\ ~edge(optf)
                                               /\ row[j].a \notin listed}}
                \cup {"C04.NoClearlyWorse s=" \o S2(s) \o " a=" \o row[j].a :
                    j \in {j \in DOMAIN row : ClearlyWorse(kind, vf[j], optf, 4 * orc.eps)
                                               /\ row[j].a \in listed}}
          : s \in {s \in States(g) : g.owner[s] # PR /\ ~rs[s].none} }

RStratClauses(g, orc, p, rs) ==
    LET sh == ShapeClauses(g, rs, "C04", g.tr)
    IN  IF sh # {} \/ Len(p) # g.n THEN sh
        ELSE IF orc.exact THEN C04Exact(g, orc, p, rs) ELSE C04Reported(g, orc, p, rs)

-----------------------------------------------------------------------------
(* C03: the conditioned transition lists.  nodes[s] : sequence of          *)
(* [a, t, p] (p an observed number, meaningful on probabilistic states).   *)
ZeroRep(p)  == {s \in DOMAIN p : p[s].z}
AllowRep(g, rs) == [s \in States(g) |-> IF rs[s].none THEN {} ELSE SeqSet(rs[s].acts)]
CondGame(g, p, rs, prune) == Conditioned(g, AllowRep(g, rs), ZeroRep(p), prune)

SameStruct(ob, ex) ==
    /\ Len(ob) = Len(ex)
    /\ \A j \in DOMAIN ex : ob[j].a = ex[j].a /\ ob[j].t = ex[j].t

WeightsOK(ob, ex) ==
    LET W == SumW(ex, Len(ex))
        \* (no surviving probability at all: "divided by the total surviving probability" says nothing)
    IN  W = 0 \/ \A j \in DOMAIN ex : ob[j].p.k = "ok" /\ FixNear(Fx(ob[j].p), ToFix(Rat(ex[j].w, W)), 2)

CondClauses(g, p, rs, prune, nodes) ==
    IF Len(nodes) # g.n THEN {"C03.Length"}
    ELSE
    LET Z   == ZeroRep(p)
        Gc  == CondGame(g, p, rs, prune)
        Dom == ReachDom(Gc)
        dead(s) == prune /\ g.owner[s] \in {P1, PR} /\ \E j \in DOMAIN nodes[s] : nodes[s][j].t \in Z
        same(s) == SameStruct(nodes[s], Gc.tr[s])
    IN  {"C03.NoDeadEdge s=" \o S2(s) : s \in {s \in States(g) : dead(s)}}
        \cup {"C03.P2Kept s=" \o S2(s) :
                s \in {s \in Dom : g.owner[s] = P2 /\ ~same(s)}}
        \cup {"C03.NothingElse s=" \o S2(s) :
                s \in {s \in Dom : g.owner[s] # P2 /\ ~same(s) /\ ~dead(s)}}
        \cup {"C03.OnlyUnreachableCleared s=" \o S2(s) :
                s \in {s \in States(g) \ Dom : ~same(s) /\ ~dead(s) /\ Len(nodes[s]) # 0
                                               /\ g.owner[s] # P2}}
        \cup {"C03.Weights s=" \o S2(s) :
                s \in {s \in States(g) : g.owner[s] = PR /\ same(s)
                                          /\ ~WeightsOK(nodes[s], Gc.tr[s])}}

-----------------------------------------------------------------------------
(* C02 / C05 / C14 on the value of the conditioned game                    *)

\* everything the reward clauses need, or [ok |-> FALSE] outside the domain
RewardOracle(g, orc, p, rs, prune) ==
    LET Gc  == CondGame(g, p, rs, prune)
        Dom == IF prune THEN ReachDom(Gc) ELSE States(g)
        stop == StoppingOn(Gc, Dom)      \* pure graph fixed point: decidable at any size
        \* the exact reward clauses (C02, C05.Exact, C14) are claimed for STOPPING INPUT games
        \* only (final states absorbing, no rewarded end component anywhere): that is the domain
        \* the properties state, and an implementation may treat other inputs differently
    IN  IF ~orc.exact \/ ~stop \/ ~orc.stopping
        THEN [ok |-> FALSE, stop |-> stop, Gc |-> Gc, Dom |-> Dom]
        ELSE LET rv == RewardValue(Gc, Dom)
                 hb == RewardStepBound(Gc, Dom)
             IN  [ok |-> TRUE, stop |-> TRUE, Gc |-> Gc, Dom |-> Dom, rv |-> rv,
                  rvf |-> TLCEval([s \in Dom |-> ToFix(rv[s])]),
                  tol |-> TLCEval([s \in Dom |-> TolNanoE(ToFix(hb[s]), orc.eps)]),
                  acyclic |-> AcyclicOn(Gc, Dom)]

RewardClauses(ro, rew) ==
    IF ~ro.ok THEN {}
    ELSE {"C02.Numeric s=" \o S2(s) : s \in {s \in ro.Dom : rew[s].k # "ok"}}
         \cup {"C02.Value s=" \o S2(s) :
                 s \in {s \in ro.Dom : rew[s].k = "ok" /\ ro.tol[s] < Nano
                           /\ ~FixNear(Fx(rew[s]), ro.rvf[s], ro.tol[s] + 2)}}

\* per state: is the competition decided beyond numerical doubt, and by whom
FinalZones(ro, s) ==
    LET row  == ro.Gc.tr[s]
        kind == ro.Gc.owner[s]
        vals == [j \in DOMAIN row |-> ro.rv[row[j].t]]
        opt  == IF kind = P1 THEN RMaxOf(SeqSet(vals)) ELSE RMinOf(SeqSet(vals))
        best == {j \in DOMAIN row : vals[j] = opt}
        m0   == CHOOSE m \in best : TRUE
        guardOf(j) == LET ta == ro.tol[row[j].t]  tb == ro.tol[row[m0].t]
                      IN  2 * (IF ta > tb THEN ta ELSE tb) + 2000
        decided == \A j \in DOMAIN row :
                      \/ j \in best
                      \/ guardOf(j) < Nano /\ ClearlyWorse(kind, ToFix(vals[j]), ToFix(opt), guardOf(j))
        tieOK == ro.acyclic \/ opt = RZero \/ Cardinality(best) = 1
    IN  [decided |-> decided /\ tieOK, best |-> best]

FStratClauses(g, ro, rs, fs) ==
    LET sh == ShapeClauses(g, fs, "C05", ro.Gc.tr)
    IN  IF sh # {} THEN sh
        ELSE {"C05.Subset s=" \o S2(s) :
                 s \in {s \in States(g) : g.owner[s] = P1 /\ ~rs[s].none
                           /\ ~(SeqSet(fs[s].acts) \subseteq SeqSet(rs[s].acts))}}
             \cup (IF ~ro.ok THEN {}
                   ELSE {"C05.Exact s=" \o S2(s) :
                           s \in {s \in ro.Dom :
                                    /\ g.owner[s] # PR
                                    /\ LET row == ro.Gc.tr[s]
                                       IN  IF Len(row) = 0 THEN Len(fs[s].acts) # 0
                                           ELSE LET fz == FinalZones(ro, s)
                                                IN  fz.decided /\
                                                    SeqSet(fs[s].acts) # {row[j].a : j \in fz.best}}})

\* C14: both diagnostics, when every mover of Dom has a single, undisputed
\* final action
SingleAt(ro, fs, s) == Len(fs[s].acts) = 1 /\ FinalZones(ro, s).decided
C14Domain(g, ro, fs) ==
    /\ ro.ok
    /\ \A s \in ro.Dom : (g.owner[s] # PR /\ Len(ro.Gc.tr[s]) > 0) => SingleAt(ro, fs, s)

OnlyActs(g, who, allow) ==
    [g EXCEPT !.tr = [s \in 1..g.n |->
        IF g.owner[s] \in who THEN SelectSeq(g.tr[s], LAMBDA e : e.a \in allow[s]) ELSE g.tr[s]]]

DiagClauses(g, ro, rs, fs, aux1, aux2) ==
    IF ~C14Domain(g, ro, fs) THEN {}
    ELSE LET fa  == [s \in States(g) |-> IF fs[s].none THEN {} ELSE SeqSet(fs[s].acts)]
             ra  == [s \in States(g) |-> IF rs[s].none THEN {} ELSE SeqSet(rs[s].acts)]
             G1  == OnlyActs(ro.Gc, {P1, P2}, fa)          \* both follow final strategies
             G2  == OnlyActs(OnlyActs(ro.Gc, {P1}, fa), {P2}, ra)
             D1  == ro.Dom
             c1  == [s \in Movers(G1, P1, D1) \cup Movers(G1, P2, D1) |-> 1]
             r1  == MCReachOn(G1, c1, D1)
             h1  == StepBound(G1, D1, Sinks(G1) \cap D1)
             v2  == RewardValue(G2, D1)
             h2  == StepBound(G2, D1, Sinks(G2) \cap D1)
             t1(s) == TolNano(ToFix(h1[s]))
             t2(s) == TolNano(ToFix(h2[s]))
         IN  {"C14.ProbMinRew s=" \o S2(s) :
                 s \in {s \in D1 : t1(s) < Nano /\
                          ~(aux1[s].k = "ok" /\ FixNear(Fx(aux1[s]), ToFix(r1[s]), t1(s) + 2))}}
             \cup {"C14.RewMinReach s=" \o S2(s) :
                 s \in {s \in D1 : t2(s) < Nano /\
                          ~(aux2[s].k = "ok" /\ FixNear(Fx(aux2[s]), ToFix(v2[s]), t2(s) + 2))}}

=============================================================================
