---------------------------- MODULE MC_Transform ----------------------------
(***************************************************************************)
(* Spec-level C13: the semantic functions (zero set, reachability value,   *)
(* stopping, reward value) commute with every presentation change of the   *)
(* perm family.  Together with conformance of the code on BOTH             *)
(* presentations this implies C13 on the exact domain.                     *)
(***************************************************************************)
EXTENDS Gen_Games, TLCExt

Cases == PermFamily
Bad == {i \in DOMAIN Cases : ~(IsPresentationRel(Cases[i].g, Cases[i].rel)
                               /\ ValuesCommute(Cases[i].g, Cases[i].rel))}
ASSUME PrintT(ToJson([checked |-> Len(Cases), bad |-> Bad]))
ASSUME Bad = {}
=============================================================================
