------------------------------ MODULE GraphOps ------------------------------
(***************************************************************************)
(* Graph fixed points on a description: reversed table, backward and       *)
(* forward reachability, and the exact zero set of the reachability game.  *)
(* None of these needs arithmetic, so they are decidable at any size.      *)
(***************************************************************************)
EXTENDS Games

\* predecessors of v as a set
Pred(g, v) == {u \in States(g) : v \in Succ(g, u)}

\* number of transitions u -> v (the multiplicity the reversed table records)
Mult(g, u, v) == Cardinality({k \in TrIdx(g, u) : g.tr[u][k].t = v})

\* least fixed point: states from which F is reachable along transitions
RECURSIVE BackClose(_, _, _)
BackClose(g, Seen, Frontier) ==
    IF Frontier = {} THEN Seen
    ELSE LET New == (UNION {Pred(g, v) : v \in Frontier}) \ Seen
         IN  BackClose(g, Seen \cup New, New)
BackReach(g, F) == BackClose(g, F, F)

\* forward reachability under a successor function next[s] (a set per state)
RECURSIVE FwdClose(_, _, _)
FwdClose(next, Seen, Frontier) ==
    IF Frontier = {} THEN Seen
    ELSE LET New == (UNION {next[v] : v \in Frontier}) \ Seen
         IN  FwdClose(next, Seen \cup New, New)
FwdReach(next, s0) == FwdClose(next, {s0}, {s0})
SuccFn(g) == [s \in States(g) |-> Succ(g, s)]

\* States with positive max-min reachability value: least fixed point of
\*   F  u  {P1/PR states with SOME successor in X}  u  {P2 states with ALL in X}
RECURSIVE PosClose(_, _)
PosClose(g, X) ==
    LET Y == X \cup {s \in States(g) \ X :
                       IF g.owner[s] = P2 THEN SuccP(g, s) # {} /\ SuccP(g, s) \subseteq X
                       ELSE SuccP(g, s) \cap X # {}}
    IN  IF Y = X THEN X ELSE PosClose(g, Y)
PosSet(g)  == PosClose(g, FinalSet(g))
ZeroSet(g) == States(g) \ PosSet(g)

=============================================================================
