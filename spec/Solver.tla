------------------------------- MODULE Solver -------------------------------
(***************************************************************************)
(* The solver pipeline of StochasticGame.solve() as a state machine: one   *)
(* action per critical section of the code.  Every action is               *)
(*        Guard /\ Effect                                                  *)
(* where the guard says which produced values the semantics allows (the    *)
(* clause sets of module Clauses are empty) and the effect stores them.    *)
(* MC_Solver drives the machine with the IDEAL values (exact game values)  *)
(* and checks the invariants below on whole families of small games;       *)
(* Trace_Solver drives the same effects with the values recorded from the  *)
(* real code and reports the guards that fail.                             *)
(*                                                                         *)
(*   pc: idle -> called -> reached -> strategies -> restricted             *)
(*          -> [pruning -> clearing ->] conditioned -> rewarded -> idle    *)
(***************************************************************************)
EXTENDS Clauses

VARIABLES
    desc,     \* the caller's description (never changed by the solver)
    orc,      \* Oracle(desc): semantic ground truth, computed once
    pc,       \* control state of the current call
    prune,    \* pruning requested by the current call
    nodes,    \* the solver's working transition lists (same shape as desc.tr)
    prob,     \* reported reachability probabilities (observed-number records)
    rstrat,   \* reported reachability strategies
    rew,      \* reported expected rewards
    fstrat,   \* reported final strategies
    res,      \* outcome of the last finished call
    ro,       \* RewardOracle of the conditioned game, computed once when conditioning ends
    hist      \* outcomes of earlier calls on this description, per prune flag

svars == <<desc, orc, pc, prune, nodes, prob, rstrat, rew, fstrat, res, ro, hist>>

Null == [none |-> TRUE]
Working == [desc EXCEPT !.tr = nodes]          \* the game the solver currently holds
NodesObs(g, tr) ==                               \* working lists in observed form
    [s \in 1..g.n |-> [j \in DOMAIN tr[s] |->
        [a |-> tr[s][j].a, t |-> tr[s][j].t,
         p |-> IF g.owner[s] = PR THEN ObsOf(Rat(tr[s][j].w, SumW(tr[s], Len(tr[s]))))
               ELSE ObsOf(RZero)]]]

-----------------------------------------------------------------------------
(* Ideal values *)
IdealProb(g, o) == [s \in 1..g.n |-> ObsOf(o.rv[s])]

IdealStrat(g, rows, val) ==     \* argmax / argmin in transition order
    [s \in 1..g.n |->
        IF g.owner[s] = PR THEN [none |-> TRUE, acts |-> <<>>]
        ELSE LET row == rows[s]
                 V   == {val[row[j].t] : j \in DOMAIN row}
             IN  IF V = {} THEN [none |-> FALSE, acts |-> <<>>]
                 ELSE LET opt == IF g.owner[s] = P1 THEN RMaxOf(V) ELSE RMinOf(V)
                      IN  [none |-> FALSE,
                           acts |-> ActNames(SelectSeq(row, LAMBDA e : val[e.t] = opt))]]

-----------------------------------------------------------------------------
(* Actions *)

CallEffect(p) ==
    /\ prune' = p /\ pc' = "called" /\ nodes' = desc.tr
    /\ prob' = Null /\ rstrat' = Null /\ rew' = Null /\ fstrat' = Null
    /\ UNCHANGED <<desc, orc, res, ro, hist>>
Call(p) == pc = "idle" /\ CallEffect(p)

Finish(r) ==
    /\ res' = r /\ pc' = "idle"
    /\ hist' = IF hist[prune] = Null THEN [hist EXCEPT ![prune] = r] ELSE hist
    /\ UNCHANGED <<desc, orc, prune, nodes, prob, rstrat, rew, fstrat, ro>>

\* validation (check_game, init_states, Node.check_next_states, "no final state")
Reject == pc = "called" /\ ~WellFormed(desc) /\ Finish([k |-> "ValueError", cls |-> "malformed"])

\* reverse_dfs + value_iteration_reachability
ReachEffect(p) ==
    /\ prob' = p /\ pc' = "reached"
    /\ UNCHANGED <<desc, orc, prune, nodes, rstrat, rew, fstrat, res, ro, hist>>
Reach(p) == pc = "called" /\ WellFormed(desc) /\ ReachClauses(desc, orc, p) = {} /\ ReachEffect(p)

\* the ValueError at the end of value_iteration_reachability
NoSolutionGuard == prune /\ 1 \in orc.zero
NoSolution == pc = "reached" /\ NoSolutionGuard
              /\ Finish([k |-> "ValueError", cls |-> "nosolution"])

\* _get_reachability_strategies
RStratEffect(rs) ==
    /\ rstrat' = rs /\ pc' = "strategies"
    /\ UNCHANGED <<desc, orc, prune, nodes, prob, rew, fstrat, res, ro, hist>>
RStrat(rs) == pc = "reached" /\ ~NoSolutionGuard
              /\ RStratClauses(desc, orc, prob, rs) = {} /\ RStratEffect(rs)

\* prune_reachability: Player 1 keeps its reachability-optimal actions
RestrictP1 ==
    /\ pc = "strategies"
    /\ nodes' = RestrictP1To(Working, AllowRep(desc, rstrat)).tr
    /\ pc' = IF prune THEN "pruning" ELSE "conditioned"
    /\ ro' = IF prune THEN ro ELSE RewardOracle(desc, orc, prob, rstrat, prune)
    /\ UNCHANGED <<desc, orc, prune, prob, rstrat, rew, fstrat, res, hist>>

\* prune_paths: one Player 1 / probabilistic state at a time, in any order
HasDead(s) == desc.owner[s] \in {P1, PR} /\ \E j \in DOMAIN nodes[s] : nodes[s][j].t \in ZeroRep(prob)
PrunePath(s) ==
    /\ pc = "pruning" /\ HasDead(s)
    /\ nodes' = [nodes EXCEPT ![s] = PruneRow(Working, ZeroRep(prob), s)]
    /\ UNCHANGED <<desc, orc, pc, prune, prob, rstrat, rew, fstrat, res, ro, hist>>
PruneDone ==
    /\ pc = "pruning" /\ \A s \in 1..desc.n : ~HasDead(s)
    /\ pc' = "clearing"
    /\ UNCHANGED <<desc, orc, prune, nodes, prob, rstrat, rew, fstrat, res, ro, hist>>

\* prune_states: one round of "clear the non-Player-1 states nobody points to"
ToClear == {s \in Unreferenced(Working) : Len(nodes[s]) > 0}
ClearRound ==
    /\ pc = "clearing" /\ ToClear # {}
    /\ nodes' = ClearStates(Working, ToClear).tr
    /\ UNCHANGED <<desc, orc, pc, prune, prob, rstrat, rew, fstrat, res, ro, hist>>
ClearDone ==
    /\ pc = "clearing" /\ ToClear = {}
    /\ pc' = "conditioned"
    /\ ro' = RewardOracle(desc, orc, prob, rstrat, prune)
    /\ UNCHANGED <<desc, orc, prune, nodes, prob, rstrat, rew, fstrat, res, hist>>

\* value_iteration_total_rewards + _get_total_rewards_strategies
RewardsEffect(rw, fs) ==
    /\ rew' = rw /\ fstrat' = fs /\ pc' = "rewarded"
    /\ UNCHANGED <<desc, orc, prune, nodes, prob, rstrat, res, ro, hist>>
Rewards(rw, fs) ==
    /\ pc = "conditioned"
    /\ ro.stop                               \* otherwise the iteration may diverge
    /\ RewardClauses(ro, rw) = {}
    /\ FStratClauses(desc, ro, rstrat, fs) = {}
    /\ RewardsEffect(rw, fs)

\* outside the stopping domain the reward iteration need not terminate
Diverge ==
    /\ pc = "conditioned" /\ ~ro.stop
    /\ pc' = "diverged"
    /\ UNCHANGED <<desc, orc, prune, nodes, prob, rstrat, rew, fstrat, res, ro, hist>>

Return == pc = "rewarded"
          /\ Finish([k |-> "Return", prob |-> prob, rstrat |-> rstrat, rew |-> rew, fstrat |-> fstrat])

-----------------------------------------------------------------------------
(* The ideal solver: every value is the exact one *)
IdealRewards ==
    \* (outside the domain the exact clauses are claimed for, ro carries no values: the ideal
    \* solver still reports the value of the conditioned game whenever that game is stopping)
    LET rv  == IF ro.ok THEN ro.rv ELSE IF ro.stop THEN RewardValue(ro.Gc, ro.Dom) ELSE [s \in ro.Dom |-> RZero]
        rw  == [s \in 1..desc.n |-> IF s \in ro.Dom THEN ObsOf(rv[s]) ELSE ObsOf(RZero)]
        val == [s \in 1..desc.n |-> IF s \in ro.Dom THEN rv[s] ELSE RZero]
    IN  Rewards(rw, IdealStrat(desc, nodes, val))

IdealNext ==
    \/ \E p \in BOOLEAN : Call(p)
    \/ Reject
    \/ Reach(IdealProb(desc, orc))
    \/ NoSolution
    \/ RStrat(IdealStrat(desc, desc.tr, orc.rv))
    \/ RestrictP1
    \/ \E s \in 1..desc.n : PrunePath(s)
    \/ PruneDone \/ ClearRound \/ ClearDone
    \/ IdealRewards \/ Diverge \/ Return

-----------------------------------------------------------------------------
(* Properties of the machine (checked by TLC in MC_Solver) *)

DescFrozen == [][desc' = desc]_svars                                  \* C10

\* C10: a later call with the same flag ends like the first one
Repeatable == (pc = "idle" /\ res # Null /\ hist[prune] # Null) => res = hist[prune]

\* C03: whatever the order of PrunePath / ClearRound steps, the result is the
\* declaratively defined conditioned game, cleared states aside
PruneConfluent ==
    pc = "conditioned" =>
        LET Gc == CondGame(desc, prob, rstrat, prune)
        IN  /\ nodes = (IF prune THEN ClearLoop(Gc) ELSE Gc).tr
            /\ \A s \in ReachDom(Gc) : nodes[s] = Gc.tr[s]
            /\ CondClauses(desc, prob, rstrat, prune, NodesObs(desc, nodes)) = {}

\* C03: cleared states are never reachable from the initial state
\* ("cleared" = emptied by the clear-unreferenced loop, not by the removal of dead branches: a final state
\*  that is not absorbing and only leads into dead states loses all its transitions to the pruning itself
\*  and stays reachable -- found when the families degen and finaldeadend were added to MC_Solver)
OnlyUnreachableCleared ==
    pc \in {"clearing", "conditioned"} =>
        LET Gc == CondGame(desc, prob, rstrat, prune)
        IN  \A s \in 1..desc.n : (Len(nodes[s]) = 0 /\ Len(Gc.tr[s]) > 0 /\ desc.owner[s] # P1)
                                     => s \notin ReachDom(Working)

\* C06 / C02: conditioning a stopping game yields a game that is stopping on
\* the part the rewards are claimed for
StoppingPreserved ==
    (pc = "conditioned" /\ orc.stopping) => ro.ok

\* with pruning every state the rewards are claimed for has positive value
\* (for stopping inputs: a final state owned by Player 2 that is not absorbing may keep a
\*  transition into a dead state, which then is reachable -- family degen)
DomPositive ==
    (pc = "conditioned" /\ prune /\ orc.stopping) => ReachDom(Working) \cap orc.zero = {}

\* C05: final strategies only use reachability-optimal actions
FinalSubsetOfReach ==
    pc = "rewarded" => \A s \in 1..desc.n :
        desc.owner[s] = P1 => SeqSet(fstrat[s].acts) \subseteq SeqSet(rstrat[s].acts)

\* C06: no-solution exactly under its guard; a stopping game never diverges
OutcomeTotal ==
    /\ (res # Null /\ res.k = "ValueError" /\ res.cls = "nosolution") => 1 \in orc.zero
    /\ pc = "diverged" => ~orc.stopping

\* C01 / C04 last sentences: nothing before conditioning depends on the flag
PruneIrrelevantForReach ==
    (pc \in {"reached", "strategies"}) =>
        /\ prob = IdealProb(desc, orc)
        /\ (pc = "strategies" => rstrat = IdealStrat(desc, desc.tr, orc.rv))

Fair == WF_svars(IdealNext)
=============================================================================
