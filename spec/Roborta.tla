------------------------------ MODULE Roborta ------------------------------
(***************************************************************************)
(* "Roborta vs. the fair light", written from the RULES (property C08),    *)
(* not from the generator.  A board is                                     *)
(*   [L, W, moves, rewards, loose]    rows 1..L, columns 1..W              *)
(*   moves[i][j]: 0 left only, 1 left and right, 2 right only, 3 down only *)
(* Probabilities are integers per million: tb (tile break), rb (robot      *)
(* failure), lb (light failure).                                           *)
(*                                                                         *)
(* Abstract states (records [k, i, j]):                                    *)
(*   L   light's turn on the robot's tile; the tile's reward is collected  *)
(*   RD  robot must move down (Green)          RY  robot moves left/right  *)
(*   RF  light failed: robot chooses freely    T   robot lands on tile i,j *)
(*   PD / PL / PR  the robot attempts down / left / right (may fail)       *)
(*   LG / LY       the light shows Green / Yellow (may fail)               *)
(*   lose, win                                                             *)
(* Reading where C08 is silent (DESIGN section 7): a failed robot move     *)
(* re-lands the robot on its own tile, through that tile's break check.    *)
(***************************************************************************)
EXTENDS Games

Million == 1000000

RECURSIVE SetToSeqR(_)
SetToSeqR(S) == IF S = {} THEN <<>> ELSE LET x == CHOOSE x \in S : TRUE IN <<x>> \o SetToSeqR(S \ {x})
St(k, i, j) == [k |-> k, i |-> i, j |-> j]
LoseSt == St("lose", 0, 0)
WinSt  == St("win", 0, 0)

LeftOf(B, j)  == IF j = 1 THEN B.W ELSE j - 1
RightOf(B, j) == IF j = B.W THEN 1 ELSE j + 1
CanLeft(B, i, j)  == B.moves[i][j] \in {0, 1}
CanRight(B, i, j) == B.moves[i][j] \in {1, 2}
DownOnly(B, i, j) == B.moves[i][j] = 3
Below(B, i, j) == IF i < B.L THEN St("T", i + 1, j) ELSE WinSt

Tiles(B) == (1..B.L) \X (1..B.W)

KindsOf(v) ==
    CASE v = "A" -> {"L", "RD", "RY", "T"}
      [] v = "B" -> {"L", "RD", "RY", "T", "PD", "PL", "PR"}
      [] v = "C" -> {"L", "RD", "RY", "RF", "T", "PD", "PL", "PR", "LG", "LY"}

AbsStates(B, v) == {St(k, t[1], t[2]) : k \in KindsOf(v), t \in Tiles(B)} \cup {LoseSt, WinSt}

AOwner(s) ==
    CASE s.k = "L" -> P2
      [] s.k \in {"RD", "RY", "RF"} -> P1
      [] OTHER -> PR

AReward(B, s) == IF s.k = "L" THEN B.rewards[s.i][s.j] ELSE 0

\* abstract transitions: sequences of [a, w, t] with t an abstract state
ARow(B, v, p, s) ==
    LET i == s.i  j == s.j
        down  == IF v = "A" THEN Below(B, i, j) ELSE St("PD", i, j)
        left  == IF v = "A" THEN St("T", i, LeftOf(B, j))  ELSE St("PL", i, j)
        right == IF v = "A" THEN St("T", i, RightOf(B, j)) ELSE St("PR", i, j)
        lr == (IF CanLeft(B, i, j) THEN <<Tr("Left", 0, left)>> ELSE <<>>)
              \o (IF CanRight(B, i, j) THEN <<Tr("Right", 0, right)>> ELSE <<>>)
    IN  CASE s.k = "L" ->
               <<Tr("Green", 0, IF v = "C" THEN St("LG", i, j) ELSE St("RD", i, j))>>
               \o (IF DownOnly(B, i, j) THEN <<>>
                   ELSE <<Tr("Yellow", 0, IF v = "C" THEN St("LY", i, j) ELSE St("RY", i, j))>>)
          [] s.k = "RD" -> <<Tr("Down", 0, down)>>
          [] s.k = "RY" -> lr
          [] s.k = "RF" -> <<Tr("Down", 0, down)>> \o lr
          [] s.k = "T"  -> IF B.loose[i][j] = 1
                           THEN <<Tr("", p.tb, LoseSt), Tr("", Million - p.tb, St("L", i, j))>>
                           ELSE <<Tr("", 1, St("L", i, j))>>
          [] s.k = "PD" -> <<Tr("", p.rb, St("T", i, j)), Tr("", Million - p.rb, Below(B, i, j))>>
          [] s.k = "PL" -> <<Tr("", p.rb, St("T", i, j)), Tr("", Million - p.rb, St("T", i, LeftOf(B, j)))>>
          [] s.k = "PR" -> <<Tr("", p.rb, St("T", i, j)), Tr("", Million - p.rb, St("T", i, RightOf(B, j)))>>
          [] s.k = "LG" -> <<Tr("", p.lb, St("RF", i, j)), Tr("", Million - p.lb, St("RD", i, j))>>
          [] s.k = "LY" -> <<Tr("", p.lb, St("RF", i, j)), Tr("", Million - p.lb, St("RY", i, j))>>
          [] s.k = "lose" -> <<Tr("", 1, LoseSt)>>
          [] s.k = "win"  -> <<Tr("", 1, WinSt)>>

\* forward closure from the initial abstract state
RECURSIVE AClose(_, _, _, _, _)
AClose(B, v, p, Seen, Frontier) ==
    IF Frontier = {} THEN Seen
    ELSE LET New == (UNION {{ARow(B, v, p, s)[m].t : m \in DOMAIN ARow(B, v, p, s)} : s \in Frontier}) \ Seen
         IN  AClose(B, v, p, Seen \cup New, New)

\* the abstract game in the encoding of module Games (reachable part, initial state first)
AbstractGame(B, v, p) ==
    LET init == St("L", 1, 1)
        R    == AClose(B, v, p, {init}, {init})
        rest == R \ {init}
        ord  == <<init>> \o SetToSeqR(rest)
        idx  == [s \in R |-> CHOOSE m \in DOMAIN ord : ord[m] = s]
    IN  [n |-> Len(ord),
         owner  |-> [m \in DOMAIN ord |-> AOwner(ord[m])],
         reward |-> [m \in DOMAIN ord |-> AReward(B, ord[m])],
         tr |-> [m \in DOMAIN ord |->
                   LET row == ARow(B, v, p, ord[m])
                   IN  [q \in DOMAIN row |-> Tr(row[q].a, row[q].w, idx[row[q].t])]],
         final |-> <<idx[WinSt]>>]
=============================================================================
