-------------------------------- MODULE DFS --------------------------------
(***************************************************************************)
(* The backward search of reverse_dfs.py as an algorithm (growth beyond    *)
(* C07's input/output clauses): one machine for the search as it is now    *)
(* (iterative, visited set) and one for the search as it was (recursive,   *)
(* "already seen" tested against the list the call was GIVEN, not the one  *)
(* it is extending).  TLC explores both on every graph with NS states and   *)
(* at most two edges per state and every final sequence of length <= 2:    *)
(* the first always ends with each backward-reachable state exactly once,  *)
(* the second is a counter-model (duplicates), which documents why the     *)
(* repair was needed and shows that the invariant is not vacuous.          *)
(***************************************************************************)
EXTENDS ReverseDFS

CONSTANT NS

VARIABLES tl, finals, fi, acc, visited, pending, frames, pc
dvars == <<tl, finals, fi, acc, visited, pending, frames, pc>>

Rows   == UNION {[1..k -> 1..NS] : k \in 0..2}
Finals == UNION {[1..k -> 1..NS] : k \in 1..2}

\* predecessor list of v in the order the reversed table lists it
RECURSIVE PredsFrom(_, _, _)
PredsFrom(g, v, u) ==
    IF u > NS THEN <<>>
    ELSE [k \in 1..MultG(g, u, v) |-> u] \o PredsFrom(g, v, u + 1)
PredList(g, v) == PredsFrom(g, v, 1)

Init ==
    /\ tl \in [1..NS -> Rows] /\ finals \in Finals
    /\ fi = 1 /\ acc = <<>> /\ visited = {} /\ pending = <<>> /\ frames = <<>> /\ pc = "next"

-----------------------------------------------------------------------------
(* the search as it is now *)
NextFinal ==
    /\ pc = "next" /\ fi <= Len(finals)
    /\ LET f == finals[fi]
       IN  IF f \in visited THEN UNCHANGED <<acc, visited, pending>> /\ pc' = "next" /\ fi' = fi + 1
           ELSE /\ visited' = visited \cup {f} /\ acc' = Append(acc, f)
                /\ pending' = <<f>> /\ pc' = "loop" /\ UNCHANGED fi
    /\ UNCHANGED <<tl, finals, frames>>

Pop ==
    /\ pc = "loop" /\ Len(pending) > 0
    /\ LET cur  == pending[Len(pending)]
           rest == SubSeq(pending, 1, Len(pending) - 1)
           ps   == PredList(tl, cur)
           \* first occurrences of unvisited predecessors, in table order
           new  == SelectSeq([k \in DOMAIN ps |-> IF ps[k] \notin visited /\ \A m \in 1..(k - 1) : ps[m] # ps[k]
                                                  THEN ps[k] ELSE 0], LAMBDA x : x # 0)
       IN  /\ visited' = visited \cup SeqToSet(new)
           /\ acc' = acc \o new
           /\ pending' = rest \o new
    /\ UNCHANGED <<tl, finals, fi, frames, pc>>

LoopDone ==
    /\ pc = "loop" /\ Len(pending) = 0
    /\ pc' = "next" /\ fi' = fi + 1
    /\ UNCHANGED <<tl, finals, acc, visited, pending, frames>>

Finish ==
    /\ pc = "next" /\ fi > Len(finals)
    /\ pc' = "done"
    /\ UNCHANGED <<tl, finals, fi, acc, visited, pending, frames>>

Next == NextFinal \/ Pop \/ LoopDone \/ Finish
Spec == Init /\ [][Next]_dvars /\ WF_dvars(Next)

-----------------------------------------------------------------------------
(* the search as it was: recursion with frames [state, given, rec, k]      *)
OldNextFinal ==
    /\ pc = "next" /\ fi <= Len(finals) /\ frames = <<>>
    /\ frames' = <<[st |-> finals[fi], given |-> acc, rec |-> Append(acc, finals[fi]), k |-> 1]>>
    /\ pc' = "rec"
    /\ UNCHANGED <<tl, finals, fi, acc, visited, pending>>

OldStep ==
    /\ pc = "rec" /\ frames # <<>>
    /\ LET top == frames[Len(frames)]
           ps  == PredList(tl, top.st)
       IN  IF top.k > Len(ps)
           THEN \* return rec to the caller
                IF Len(frames) = 1
                THEN /\ acc' = top.rec /\ frames' = <<>> /\ pc' = "next" /\ fi' = fi + 1
                ELSE /\ frames' = [SubSeq(frames, 1, Len(frames) - 1) EXCEPT ![Len(frames) - 1].rec = top.rec]
                     /\ UNCHANGED <<acc, pc, fi>>
           ELSE IF ps[top.k] \in SeqToSet(top.given)          \* the defect: tested against 'given'
                THEN /\ frames' = [frames EXCEPT ![Len(frames)].k = top.k + 1] /\ UNCHANGED <<acc, pc, fi>>
                ELSE /\ Len(frames) < 2 * NS + 2                 \* (bound the model; the real recursion is bounded by the path)
                     /\ frames' = Append([frames EXCEPT ![Len(frames)].k = top.k + 1],
                                         [st |-> ps[top.k], given |-> top.rec, rec |-> Append(top.rec, ps[top.k]), k |-> 1])
                     /\ UNCHANGED <<acc, pc, fi>>
    /\ UNCHANGED <<tl, finals, visited, pending>>

OldNext == OldNextFinal \/ OldStep \/ Finish
OldSpec == Init /\ [][OldNext]_dvars

-----------------------------------------------------------------------------
Result == SelectSeq(acc, LAMBDA x : x \notin SeqToSet(finals))
NoDuplicates == \A i, j \in DOMAIN acc : i # j => acc[i] # acc[j]
\* C07 at the level of the algorithm
ExactOnce == pc = "done" => /\ NoDuplicates
                           /\ SeqToSet(Result) = SearchSet(tl, finals)
VisitedIsAcc == pc \in {"next", "loop", "done"} => visited = SeqToSet(acc) \/ frames # <<>>
Terminates == <>(pc = "done")
=============================================================================
