---------------------------- MODULE Trace_Solver ----------------------------
(***************************************************************************)
(* Trace validation (code -> spec) for the solver pipeline.                *)
(*                                                                         *)
(* The file named by TRACE_FILE holds a JSON array of SESSIONS recorded by *)
(* the harness from the real code.  A session is                           *)
(*   [tid, fam, exact, descs, rel, events]                                 *)
(* descs: the descriptions handed to the code (module Games encoding);     *)
(* events: one record per linearisation point, field e names the event:    *)
(*   Snap      d, snap        canonical text of the caller's description   *)
(*   Call      d, prune, mode a solve()/reachability call starts           *)
(*   ReachDone prob, rstrat   hook after solve_reachability                *)
(*   Conditioned nodes        hook before the reward phase                 *)
(*   Return    fstrat, rstrat, rew, prob, aux1, aux2, rep                  *)
(*   RewardSweep sweep, r, q, p, lens   hook after every reward sweep      *)
(*               (only in sessions recorded with sweeps on: run.py extra vir)*)
(*   Raise     etype, cls, msg                                             *)
(*   Timeout                  the call was killed after its budget         *)
(*   End                      end of a reachability-only call              *)
(* Every session is an initial state; each step consumes one event, drives *)
(* the effects of module Solver with the recorded values and adds the      *)
(* names of the guards (clauses) that do not hold to fails.  The verdict   *)
(* of a session is printed as one JSON line when its events are used up.   *)
(* Verdicts are total: a failing clause never stops the validation.        *)
(***************************************************************************)
EXTENDS Solver, Transform, VIR, Json, IOUtils

Sessions == JsonDeserialize(IOEnv.TRACE_FILE)

VARIABLES
    tid,     \* session
    l,       \* next event
    fails,   \* names of violated clauses
    notes,   \* what was exercised (vacuity accounting)
    mode,    \* "solve" | "reach"
    dcur,    \* index of the current description
    orcs,    \* oracles of the descriptions used so far
    outs,    \* first outcome per <<d, prune>>
    reached, \* first reachability observation per <<d, prune>>
    snaps    \* first snapshot per d

tvars == <<svars, tid, l, fails, notes, mode, dcur, orcs, outs, reached, snaps>>

S  == Sessions[tid]
Ev == S.events[l]
IsEvent(e) == l <= Len(S.events) /\ Ev.e = e /\ l' = l + 1 /\ tid' = tid

Has(f, x) == x \in DOMAIN f
Put(f, x, v) == IF Has(f, x) THEN f ELSE f @@ (x :> v)

TraceInit ==
    /\ tid \in DOMAIN Sessions
    /\ l = 1 /\ fails = {} /\ notes = {} /\ mode = "solve" /\ dcur = 1
    /\ orcs = <<>> /\ outs = <<>> /\ snaps = <<>> /\ reached = <<>>
    /\ desc = Sessions[tid].descs[1] /\ orc = Null
    /\ pc = "idle" /\ prune = FALSE /\ nodes = <<>>
    /\ prob = Null /\ rstrat = Null /\ rew = Null /\ fstrat = Null /\ res = Null /\ ro = [ok |-> FALSE, stop |-> TRUE]
    /\ hist = [b \in BOOLEAN |-> Null]

Proto(ok, name) == IF ok THEN {} ELSE {"Protocol." \o name \o " pc=" \o pc}

-----------------------------------------------------------------------------
TraceSnap ==
    /\ IsEvent("Snap")
    /\ snaps' = Put(snaps, Ev.d, Ev.snap)
    /\ fails' = fails \cup (IF Has(snaps, Ev.d) /\ snaps[Ev.d] # Ev.snap
                            THEN {"C10.DescSame d=" \o S2(Ev.d)} ELSE {})
    /\ notes' = notes \cup (IF Has(snaps, Ev.d) THEN {"C10.snapcompared"} ELSE {})
    /\ UNCHANGED <<svars, mode, dcur, orcs, outs, reached>>

TraceCall ==
    /\ IsEvent("Call")
    /\ LET g == S.descs[Ev.d]
           o == IF Has(orcs, Ev.d) THEN orcs[Ev.d] ELSE Oracle(g, S.exact, S.eps)
       IN  /\ desc' = g /\ orc' = o /\ orcs' = Put(orcs, Ev.d, o)
           /\ prune' = Ev.prune /\ pc' = "called" /\ nodes' = g.tr
    /\ dcur' = Ev.d /\ mode' = Ev.mode
    /\ prob' = Null /\ rstrat' = Null /\ rew' = Null /\ fstrat' = Null
    /\ fails' = fails \cup Proto(pc = "idle", "Call")
    /\ ro' = [ok |-> FALSE, stop |-> TRUE]
    /\ UNCHANGED <<res, hist, notes, outs, reached, snaps>>

\* the reachability phase does not depend on the pruning flag (C01, C04)
PruneSame ==
    LET key == <<dcur, ~prune>>
    IN  IF ~Has(reached, key) \/ Len(Ev.prob) # desc.n \/ Len(Ev.rstrat) # desc.n THEN {}
        ELSE {"C01.PruneSame s=" \o S2(s) :
                 s \in {s \in 1..desc.n : ~FixNear(Fx(Ev.prob[s]), Fx(reached[key].prob[s]), 2)}}
             \cup {"C04.PruneSame s=" \o S2(s) :
                 s \in {s \in 1..desc.n : Ev.rstrat[s] # reached[key].rstrat[s]}}

\* Reach . RStrat : the hook reports both values at once
TraceReach ==
    /\ IsEvent("ReachDone")
    /\ fails' = fails \cup Proto(pc = "called", "ReachDone")
                      \cup ReachClauses(desc, orc, Ev.prob)
                      \cup RStratClauses(desc, orc, Ev.prob, Ev.rstrat)
                      \cup (IF orc.exact THEN {} ELSE BellmanReach(desc, Ev.prob))
                      \cup PruneSame
                      \cup RelReachClauses(S, dcur, prune, Ev.prob, Ev.rstrat, reached, orcs)
    /\ reached' = Put(reached, <<dcur, prune>>, [prob |-> Ev.prob, rstrat |-> Ev.rstrat])
    /\ notes' = notes \cup {"C01.checked"}
                      \cup (IF Has(reached, <<dcur, ~prune>>) THEN {"C01.prunesame"} ELSE {})
                      \cup (IF HasRel(S) /\ dcur = 2 /\ Has(reached, <<1, prune>>) THEN {"C13.compared"} ELSE {}) \cup (IF orc.exact THEN {"C01.exact"} ELSE {})
                      \cup (IF \E s \in 1..desc.n : s \in orc.zero THEN {"C01.haszero"} ELSE {})
    /\ prob' = Ev.prob /\ rstrat' = Ev.rstrat /\ pc' = "strategies"
    /\ UNCHANGED <<desc, orc, prune, nodes, rew, fstrat, res, ro, hist, mode, dcur, orcs, outs, snaps>>

\* RestrictP1 . PrunePath* . PruneDone . ClearRound* . ClearDone  (confluent:
\* PruneConfluent of MC_Solver), observed through the hook before the reward phase
TraceCond ==
    /\ IsEvent("Conditioned")
    /\ LET Gc == CondGame(desc, prob, rstrat, prune)
       IN  /\ fails' = fails \cup Proto(pc = "strategies", "Conditioned")
                             \cup (IF pc = "strategies"
                                   THEN CondClauses(desc, prob, rstrat, prune, Ev.nodes) ELSE {})
           /\ nodes' = (IF prune THEN ClearLoop(Gc) ELSE Gc).tr
           /\ notes' = notes \cup {"C03.checked"}
                  \cup (IF prune /\ \E s \in 1..desc.n : desc.owner[s] \in {P1, PR} /\
                             Cardinality({j \in DOMAIN desc.tr[s] : desc.tr[s][j].t \in ZeroRep(prob)}) >= 2
                        THEN {"C03.multidead"} ELSE {})
    /\ pc' = "conditioned"
    /\ ro' = IF pc = "strategies" /\ mode = "solve"
             THEN RewardOracle(desc, orc, prob, rstrat, prune) ELSE [ok |-> FALSE, stop |-> TRUE]
    /\ UNCHANGED <<desc, orc, prune, prob, rstrat, rew, fstrat, res, hist, mode, dcur, orcs, outs, reached, snaps>>

\* one sweep of the reward iteration (module VIR); the previous sweep is kept in ro.vp
TraceRewardSweep ==
    /\ IsEvent("RewardSweep")
    /\ LET cur  == [r |-> Ev.r, q |-> Ev.q, p |-> Ev.p]
           has  == "vp" \in DOMAIN ro
           cont == has /\ ro.vp.sweep + 1 = Ev.sweep /\ Comparable(ro.vp.vec, cur)
           resid == IF cont THEN Resid(ro.vp.vec, cur) ELSE -1
       IN  /\ fails' = fails
                \cup Proto(pc = "conditioned", "RewardSweep")
                \cup (IF cont /\ pc = "conditioned"
                      THEN SweepClauses(desc, nodes, prob, Ev.lens, ro.vp.vec, cur) ELSE {})
                \* the loop sweeps again only while the last change exceeded the threshold
                \cup (IF cont /\ ro.vp.resid >= 0 /\ ro.vp.resid <= S.eps - 2
                      THEN {"VIR.SweptAfterConvergence sweep=" \o ToString(Ev.sweep)} ELSE {})
           /\ ro' = ([vp |-> [sweep |-> Ev.sweep, vec |-> cur, resid |-> resid]] @@ ro)
           /\ notes' = notes \cup {"VIR.sweep"}
    /\ UNCHANGED <<desc, orc, pc, prune, nodes, prob, rstrat, rew, fstrat, res, hist,
                   mode, dcur, orcs, outs, reached, snaps>>

\* Known finding K5 (DESIGN section 8): with rewards multiplied by 2**70 the solver's absolute
\* six-decimal rounding no longer sees exact ties; a C05.Exact clause is renamed K5:C05.Exact when the
\* state has at least two exactly tied optimal actions and the reported list is a non-empty subset of them
FStratK5(base, fs) ==
    LET k5 == IF S.rmulpow = 0 \/ ~ro.ok THEN {}
              ELSE {s \in ro.Dom :
                      /\ desc.owner[s] # PR /\ Len(ro.Gc.tr[s]) > 0 /\ Len(fs) = desc.n
                      /\ LET fz == FinalZones(ro, s)
                             row == ro.Gc.tr[s]
                         IN  Cardinality(fz.best) >= 2 /\ Len(fs[s].acts) > 0
                             /\ SeqSet(fs[s].acts) \subseteq {row[j].a : j \in fz.best}}
        tagged == {"C05.Exact s=" \o S2(s) : s \in k5} \cap base
    IN  (base \ tagged) \cup {"K5:" \o c : c \in tagged}

\* outcome bookkeeping shared by Return / Raise / Timeout
Outcome(o) ==
    LET key == <<dcur, prune>>
    IN  /\ outs' = Put(outs, key, o)
        /\ res' = o /\ pc' = "idle"
        /\ hist' = IF hist[prune] = Null THEN [hist EXCEPT ![prune] = [rep |-> o.rep]] ELSE hist

SameResult(o) ==
    LET key == <<dcur, prune>>
    IN  IF Has(outs, key) /\ outs[key].rep # o.rep
        THEN {"C10.SameResult d=" \o S2(dcur) \o " prune=" \o ToString(prune)} ELSE {}

ShouldBeNoSolution == prune /\ 1 \in orc.zero

\* Rewards . Return
TraceReturn ==
    /\ IsEvent("Return")
    /\ LET o  == [k |-> "Return", cls |-> "", rep |-> Ev.rep, prob |-> Ev.prob, rstrat |-> Ev.rstrat,
                  rew |-> Ev.rew, fstrat |-> Ev.fstrat,
                  dom |-> IF pc = "conditioned" THEN ro.Dom ELSE {},
                  rtol |-> IF ro.ok THEN ro.tol ELSE <<>>]
           n  == desc.n
           c14 == pc = "conditioned" /\ C14Domain(desc, ro, Ev.fstrat)
       IN  /\ fails' = fails
                \cup Proto(pc = "conditioned", "Return")
                \cup (IF ShouldBeNoSolution THEN {"C06.ShouldBeNoSolution"} ELSE {})
                \cup (IF Len(Ev.prob) = n /\ Len(Ev.rew) = n /\ Len(Ev.rstrat) = n /\ Len(Ev.fstrat) = n
                         /\ Len(Ev.aux1) = n /\ Len(Ev.aux2) = n
                      THEN {} ELSE {"C06.Complete"})
                \cup (IF pc = "conditioned" /\ Ev.prob # prob THEN {"C01.ReportedDiffers"} ELSE {})
                \cup (IF pc = "conditioned" /\ Ev.rstrat # rstrat THEN {"C04.ReportedDiffers"} ELSE {})
                \cup (IF pc = "conditioned"
                      THEN RewardClauses(ro, Ev.rew)
                           \cup (IF orc.exact \/ Len(Ev.rew) # desc.n THEN {} ELSE BellmanReward(ro.Gc, ro.Dom, Ev.rew))
                           \cup FStratK5(FStratClauses(desc, ro, rstrat, Ev.fstrat), Ev.fstrat)
                           \cup DiagClauses(desc, ro, rstrat, Ev.fstrat, Ev.aux1, Ev.aux2)
                      ELSE {})
                \cup SameResult(o)
                \cup RelClauses(S, dcur, prune, o, outs, orcs)
                \* (module VIR) the iteration may only stop after a sweep that changed nothing by more
                \* than the threshold, and what is returned is the vector of the last sweep
                \cup (IF "vp" \in DOMAIN ro /\ ro.vp.resid > S.eps + 2 THEN {"VIR.StoppedEarly"} ELSE {})
                \cup (IF "vp" \in DOMAIN ro /\ ro.vp.vec.r # Ev.rew THEN {"VIR.ReturnIsLastSweep"} ELSE {})
           /\ notes' = notes \cup {"C06.returned"}
                \cup (IF ro.ok THEN {"C02.exact"} ELSE {"C02.skipped"})
                \cup (IF ro.ok /\ ~ro.acyclic THEN {"C02.cyclic"} ELSE {})
                \cup (IF c14 THEN {"C14.exact"} ELSE {"C14.skipped"})
                \cup (IF ro.ok /\ \E s \in ro.Dom : desc.owner[s] # PR /\ Len(ro.Gc.tr[s]) > 1
                                                    /\ FinalZones(ro, s).decided
                      THEN {"C05.decidedchoice"} ELSE {})
                \cup (IF Has(outs, <<dcur, prune>>) THEN {"C10.repeat"} ELSE {})
           /\ rew' = Ev.rew /\ fstrat' = Ev.fstrat
           /\ Outcome(o)
    /\ UNCHANGED <<desc, orc, prune, nodes, prob, rstrat, ro, mode, dcur, orcs, reached, snaps>>

TraceRaise ==
    /\ IsEvent("Raise")
    /\ LET o == [k |-> Ev.etype, cls |-> Ev.cls, rep |-> Ev.etype \o ":" \o Ev.msg]
           expected == ShouldBeNoSolution /\ Ev.etype = "ValueError" /\ Ev.cls = "nosolution"
       IN  /\ fails' = fails
                \cup (IF expected /\ pc = "called" THEN {}
                      ELSE {"C06.StrayError " \o Ev.etype \o " " \o Ev.cls \o " pc=" \o pc})
                \cup SameResult(o)
                \cup RelClauses(S, dcur, prune, o, outs, orcs)
           /\ notes' = notes \cup (IF expected THEN {"C06.nosolution"} ELSE {})
                \cup (IF Has(outs, <<dcur, prune>>) THEN {"C10.repeat"} ELSE {})
           /\ Outcome(o)
    /\ UNCHANGED <<desc, orc, prune, nodes, prob, rstrat, rew, fstrat, ro, mode, dcur, orcs, reached, snaps>>

\* a stopping game must be solved; outside the stopping domain divergence of the
\* reward phase is allowed (action Diverge of module Solver)
TraceTimeout ==
    /\ IsEvent("Timeout")
    /\ LET o == [k |-> "Timeout", cls |-> "", rep |-> "Timeout"]
           \* Solver!Diverge: the conditioned game is not stopping on the claimed domain
           \* ... or, the reward phase sweeping EVERY state, on the states outside that domain (a
           \* rewarded end component that the conditioned play can no longer enter); only games that
           \* are not stopping to begin with can have one
           offdom  == pc = "conditioned" /\ mode = "solve" /\ ro.stop /\ ~orc.stopping
                      /\ ~StoppingOn(Working, States(desc))
           allowed == (pc = "conditioned" /\ mode = "solve" /\ ~ro.stop) \/ offdom
       IN  /\ fails' = fails \cup (IF allowed THEN {} ELSE {"C06.Timeout pc=" \o pc})
           /\ notes' = notes \cup (IF allowed THEN {"C06.divergedOutsideDomain"} ELSE {})
           /\ Outcome(o)
    /\ UNCHANGED <<desc, orc, prune, nodes, prob, rstrat, rew, fstrat, ro, mode, dcur, orcs, reached, snaps>>

TraceEnd ==
    /\ IsEvent("End")
    /\ pc' = "idle"
    /\ UNCHANGED <<desc, orc, prune, nodes, prob, rstrat, rew, fstrat, res, ro, hist,
                   fails, notes, mode, dcur, orcs, outs, reached, snaps>>

Verdict ==
    /\ l = Len(S.events) + 1
    /\ PrintT(ToJson([tid |-> S.tid, fails |-> fails, notes |-> notes]))
    /\ l' = l + 1
    /\ UNCHANGED <<svars, tid, fails, notes, mode, dcur, orcs, outs, reached, snaps>>

TraceNext ==
    \/ TraceSnap \/ TraceCall \/ TraceReach \/ TraceCond
    \/ TraceReturn \/ TraceRaise \/ TraceTimeout \/ TraceEnd \/ TraceRewardSweep \/ Verdict

TraceSpec == TraceInit /\ [][TraceNext]_tvars

\* the description only changes when a call on another description starts
TraceDescFrozen == [][desc' # desc => (l <= Len(S.events) /\ Ev.e = "Call")]_tvars
=============================================================================
