---------------------------- MODULE Trace_Batch ----------------------------
(***************************************************************************)
(* Trace validation for C12 and C16.  A session is one batch run:          *)
(*   [tid, names, kinds, file, tgs, solos, out, report, readback, cli]     *)
(* solos[i] = [pr, un]: what solving game i ALONE on a fresh deep copy     *)
(*   gives with / without pruning: [ok, err, fields]                       *)
(* out = [crashed, etype, entries]; entry = [key, msg, none, fields, text] *)
(* The trace is replayed through the batch machine of module Batch         *)
(* (RunPruned / RunUnpruned / SkipUnpruned decided by the solo outcome),   *)
(* one step per entry, and each step is judged.                            *)
(***************************************************************************)
EXTENDS Report, Json, IOUtils, FiniteSets

Sessions == JsonDeserialize(IOEnv.TRACE_FILE)
VARIABLES tid, pos, phase, hadSolution, k, fails, stage
tvars == <<tid, pos, phase, hadSolution, k, fails, stage>>
S == Sessions[tid]

Init == /\ tid \in DOMAIN Sessions /\ pos = 1 /\ phase = "pruned" /\ hadSolution = TRUE
        /\ k = 1 /\ fails = {} /\ stage = "batch"

ErrPrefix == "Error while solving the game: "
Collides == \E i, j \in DOMAIN S.names : S.names[j] = S.names[i] \o "_no_prune"
KTag == IF Collides THEN "K2:" ELSE ""
At == " game=" \o S.names[pos]

Entries == S.out.entries

\* beyond the listed properties (prefix X.): the two counters of a solved entry are the numbers of
\* states and of transitions of the description (C12 / C16 only relate them to the solo run / the file)
RECURSIVE SumLens(_, _)
SumLens(rows, i) == IF i = 0 THEN 0 ELSE Len(rows[i].items) + SumLens(rows, i - 1)
CountClauses(e) ==
    LET rows == S.tgs[pos].transition_list.items
    IN  IF Collides \/ ~(e.msg = "Game solved" \/ S.kinds[pos] \in {"ok", "okdead", "nosol"}) THEN {}
        ELSE (IF e.text.n_states = ToString(Len(rows)) THEN {} ELSE {"X.Counts states" \o At})
             \cup (IF e.text.n_transitions = ToString(SumLens(rows, Len(rows))) THEN {} ELSE {"X.Counts transitions" \o At})
HasEntry == k <= Len(Entries)

Crash ==
    /\ stage = "batch" /\ S.out.crashed
    /\ fails' = fails \cup {"C12.NoCrash " \o S.out.etype}
    /\ stage' = "report" /\ UNCHANGED <<tid, pos, phase, hadSolution, k>>

\* Batch!RunPruned
StepPruned ==
    /\ stage = "batch" /\ ~S.out.crashed /\ pos <= Len(S.names) /\ phase = "pruned"
    /\ LET sp == S.solos[pos].pr
       IN  /\ fails' = fails \cup
                (IF ~HasEntry THEN {KTag \o "C12.BothEntries missing pruned entry" \o At}
                 ELSE LET e == Entries[k]
                      IN  (IF e.key = S.names[pos] THEN {} ELSE {KTag \o "C12.KeyOrder" \o At})
                          \cup (IF e.key = S.names[pos] THEN CountClauses(e) ELSE {})
                          \* every field of the entry (of a failing game too) is what the runner gives
                          \* for a file that holds this game only
                          \cup (IF S.solos[pos].alone.ok /\ e.fields # S.solos[pos].alone.pr
                                THEN {KTag \o "C12.EntryEqualsAlone pruned" \o At} ELSE {})
                          \cup (IF sp.ok
                                THEN (IF e.msg = "Game solved" /\ e.fields = sp.fields /\ ~e.none THEN {}
                                      ELSE {KTag \o "C12.EntryEqualsSolo pruned" \o At})
                                ELSE (IF e.msg = ErrPrefix \o sp.err /\ e.none THEN {}
                                      ELSE {KTag \o "C12.FailureMsg" \o At})))
           /\ hadSolution' = sp.ok
    /\ phase' = "unpruned" /\ k' = k + 1 /\ UNCHANGED <<tid, pos, stage>>

\* Batch!RunUnpruned / Batch!SkipUnpruned
StepUnpruned ==
    /\ stage = "batch" /\ ~S.out.crashed /\ pos <= Len(S.names) /\ phase = "unpruned"
    /\ LET su == S.solos[pos].un
       IN  fails' = fails \cup
                (IF ~HasEntry THEN {KTag \o "C12.BothEntries missing unpruned entry" \o At}
                 ELSE LET e == Entries[k]
                      IN  (IF e.key = S.names[pos] \o "_no_prune" THEN {} ELSE {KTag \o "C12.KeyOrder" \o At})
                          \cup (IF e.key = S.names[pos] \o "_no_prune" THEN CountClauses(e) ELSE {})
                          \cup (IF S.solos[pos].alone.ok /\ e.fields # S.solos[pos].alone.un
                                THEN {KTag \o "C12.EntryEqualsAlone unpruned" \o At} ELSE {})
                          \cup (IF hadSolution
                                THEN (IF su.ok
                                      THEN (IF e.msg = "Game solved" /\ e.fields = su.fields /\ ~e.none THEN {}
                                            ELSE {KTag \o "C12.EntryEqualsSolo unpruned" \o At})
                                      ELSE (IF e.msg = ErrPrefix \o su.err /\ e.none THEN {}
                                            ELSE {KTag \o "C12.FailureMsg unpruned" \o At}))
                                ELSE (IF e.msg = "Game not solved" /\ e.none THEN {}
                                      ELSE {KTag \o "C12.UnprunedMarkedNotSolved" \o At})))
    /\ pos' = pos + 1 /\ phase' = "pruned" /\ hadSolution' = TRUE /\ k' = k + 1
    /\ UNCHANGED <<tid, stage>>

EndBatch ==
    /\ stage = "batch" /\ ~S.out.crashed /\ pos = Len(S.names) + 1
    /\ fails' = fails \cup (IF k = Len(Entries) + 1 THEN {} ELSE {KTag \o "C12.BothEntries extra entries"})
                     \* the same file through the command line (-f FILE -s): a failing game is an
                     \* entry of the report, not the end of the run -- the entries of the other games
                     \* are still produced and saved
                     \cup (IF (\E i \in DOMAIN Entries : Entries[i].msg # "Game solved")
                             /\ (S.cli.rc # 0 \/ S.cli.files # <<ReportName(S.file)>>)
                          THEN {"C12.CliKeepsGoing a file with a failing game: exit " \o ToString(S.cli.rc)
                                \o ", reports " \o ToString(Len(S.cli.files))}
                          ELSE {})
    /\ stage' = "report" /\ UNCHANGED <<tid, pos, phase, hadSolution, k>>

\* C16: the report file, the reader, the command line
CheckReport ==
    /\ stage = "report"
    /\ fails' = fails \cup
         (IF S.out.crashed THEN {}
          ELSE LET R == S.report
               IN  (IF R.files = <<ReportName(S.file)>> THEN {} ELSE {"C16.FileName"})
                   \cup (IF R.error # "" THEN {"C16.NoError " \o R.error} ELSE {})
                   \cup (IF Len(R.blocks) = Len(Entries) THEN {} ELSE {"C16.BlockCountOrder"})
                   \cup (IF Len(R.blocks) # Len(Entries) THEN {}
                         ELSE UNION {BlockClauses(Entries[b].text, R.blocks[b], b) : b \in DOMAIN R.blocks}))
         \cup (IF S.readback.error # "" THEN {"C16.ReadBack " \o S.readback.error}
               ELSE (IF S.readback.keys = S.names THEN {} ELSE {"C16.ReadBack keys"})
                    \cup {"C16.ReadBack game=" \o S.names[i] :
                             i \in {i \in DOMAIN S.names : S.readback.keys = S.names
                                                           /\ S.readback.digests[i] # S.written[i]}})
         \cup (IF S.readback.error # "" THEN {}
               ELSE (IF S.readback.keys2 = S.names /\ S.readback.digests2 = S.written THEN {}
                     ELSE {"C16.ReadBack second read after the batch run"}))
         \cup (IF S.out.crashed THEN {}
               ELSE (IF S.cli.rc = 0 THEN {} ELSE {"C16.Cli exit"})
                    \cup (IF S.cli.files = <<ReportName(S.file)>> THEN {} ELSE {"C16.Cli FileName"})
                    \cup {"C16.Cli line differs: " \o S.cli.diff[i] : i \in DOMAIN S.cli.diff}
                    \* the same command with a log level: still the same saved report (C16); the other
                    \* ways of typing it are growth beyond the listed properties (prefix X.)
                    \cup UNION {CliVariantClauses(S.cli.variants[i], ReportName(S.file)) : i \in DOMAIN S.cli.variants}
                    \* the file named on the command line is the one that is read and reported, wherever it
                    \* lies and whatever reports exist already
                    \* (not for the key collision K2, where the report has fewer blocks than entries)
                    \cup (IF Collides \/ (S.cli.elsewhere.rc = 0 /\ S.cli.elsewhere.same) THEN {}
                          ELSE {"C16.Cli report of a file in another folder (older than an existing report)"})
                    \cup (IF S.cli.elsewhere.keysok THEN {} ELSE {"C16.ReadBack of a file in another folder"}))
    /\ stage' = "verdict" /\ UNCHANGED <<tid, pos, phase, hadSolution, k>>

Verdict ==
    /\ stage = "verdict"
    /\ PrintT(ToJson([tid |-> S.tid, fails |-> fails,
                      notes |-> {"kinds:" \o ToString(S.kinds)}
                                \cup (IF \E i \in DOMAIN S.solos : ~S.solos[i].pr.ok THEN {"C12.failing"} ELSE {})
                                \cup (IF \E i \in 2..Len(S.solos) : ~S.solos[i - 1].pr.ok /\ S.solos[i].pr.ok
                                      THEN {"C12.solvedafterfailure"} ELSE {})]))
    /\ stage' = "done" /\ UNCHANGED <<tid, pos, phase, hadSolution, k, fails>>

Next == Crash \/ StepPruned \/ StepUnpruned \/ EndBatch \/ CheckReport \/ Verdict
Spec == Init /\ [][Next]_tvars
=============================================================================
