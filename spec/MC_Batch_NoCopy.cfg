SPECIFICATION SpecNoCopy
CONSTANTS
  Kinds = {"ok", "okdead", "nosol", "malformed"}
  MaxLen = 2
INVARIANT Isolation
CHECK_DEADLOCK FALSE
