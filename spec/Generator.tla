----------------------------- MODULE Generator -----------------------------
(***************************************************************************)
(* The generator as a state machine (see GeneratorRules for the contract). *)
(***************************************************************************)
EXTENDS GeneratorRules

-----------------------------------------------------------------------------
(* The generator as a state machine *)
VARIABLES memo,    \* boards returned so far, per parameter set
          files    \* files in the working directory
gvars == <<memo, files>>

GInit == memo = <<>> /\ files = {}

Gen(p, b) ==                      \* gen_rnd_board
    /\ BoardOK(p, b)
    /\ (p \in DOMAIN memo => memo[p] = b)
    /\ memo' = IF p \in DOMAIN memo THEN memo ELSE memo @@ (p :> b)
    /\ UNCHANGED files

Refuse(p) == ~ParamsOK(p) /\ UNCHANGED gvars           \* check_input raises ValueError

Write(p, b) ==                    \* main(): check_input, gen_rnd_board, write_robots
    /\ ParamsOK(p) /\ BoardOK(p, b)
    /\ (p \in DOMAIN memo => memo[p] = b)
    /\ memo' = IF p \in DOMAIN memo THEN memo ELSE memo @@ (p :> b)
    /\ files' = files \cup {FileName(p)}
=============================================================================
